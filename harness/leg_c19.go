package main

import (
	"errors"
	"fmt"
	"unicode"
	"unicode/utf8"

	"github.com/dlclark/regexp2/v2"
	"github.com/dlclark/regexp2/v2/syntax"
)

func init() {
	registerLeg("c19-escape", "C19", legC19Escape)
	registerLeg("c19-literal", "C19", legC19Literal)
}

var c19Interesting = []rune{'\\', '.', '+', '*', '?', '(', ')', '|', '[', ']', '{', '}', '^', '$', '#', ' ',
	'\t', '\n', '\v', '\f', '\r', 7, 8, 27, 0, 1, 0x1f, 0x7f, 0x80, 0x85, 0x9f, 0xa0, 0xad, 0xff, 0x100, 0x378, 0x379, 0xfff, 0x1000,
	0x2028, 0x200b, 0x200d, 0xd7ff, 0xe000, 0xfffd, 0xfffe, 0xffff, 0x10000, 0x1f600, 0xe0001, 0xf0000, 0x10ffff, 0x1fffe,
	'a', 'b', 'e', 'n', 'x', 'u', 'c', 'k', 'w', 'd', '0', '7', '9', 'A', 'F', 'é', 'ß', 'Ω', 'я', '-', '&', '~', ',', '<', '>', '_', '\'', '"'}

func c19RandString(r *Rng, maxLen int) []rune {
	n := r.Intn(maxLen + 1)
	out := make([]rune, 0, n)
	for i := 0; i < n; i++ {
		switch r.Intn(10) {
		case 0, 1, 2, 3:
			out = append(out, Pick(r, c19Interesting))
		case 4, 5:
			out = append(out, rune(r.Intn(0x180)))
		case 6:
			out = append(out, rune(0x100+r.Intn(0xff00)))
		case 7:
			out = append(out, rune(0x10000+r.Intn(0x100000)))
		default:
			out = append(out, rune(0x20+r.Intn(0x5f)))
		}
	}
	// keep valid scalars only (the property quantifies over valid UTF-8)
	for i, c := range out {
		if !utf8.ValidRune(c) {
			out[i] = 'a'
		}
	}
	return out
}

func runesToInts(rs []rune) []int64 {
	out := make([]int64, len(rs))
	for i, r := range rs {
		out[i] = int64(r)
	}
	return out
}

func encRunes(rs []rune) []int64 {
	return append([]int64{int64(len(rs))}, runesToInts(rs)...)
}

func b2i(b bool) int64 {
	if b {
		return 1
	}
	return 0
}

// oracle table: n, then n pairs (rune, bit)
func encOracle(rs []rune, f func(rune) bool) []int64 {
	seen := map[rune]bool{}
	var out []int64
	n := 0
	for _, r := range rs {
		if !seen[r] {
			seen[r] = true
			out = append(out, int64(r), b2i(f(r)))
			n++
		}
	}
	return append([]int64{int64(n)}, out...)
}

var syntaxErrCodes = map[syntax.ErrorCode]int64{
	syntax.ErrIllegalEndEscape:   1,
	syntax.ErrUnrecognizedEscape: 2,
	syntax.ErrMissingControl:     3,
	syntax.ErrUnrecognizedControl: 4,
	syntax.ErrTooFewHex:          5,
	syntax.ErrInvalidHex:         6,
	syntax.ErrMissingBrace:       7,
}

func syntaxErrCode(err error) int64 {
	var se *syntax.Error
	if errors.As(err, &se) {
		if c, ok := syntaxErrCodes[se.Code]; ok {
			return c
		}
	}
	return 99
}

func guardC19(s []rune) string {
	return ""
}

func legC19Escape(c *Ctx) {
	c.Rule("strings of valid scalars biased to metacharacters, whitespace, controls, non-printables below/above U+FFFF; non-trivial = contains a rune that Escape rewrites (distinct by string); plus escape-shaped and malformed strings fed to Unescape")
	// oracle facts the theorems take as hypotheses
	for _, m := range `\.+*?()|[]{}^$# ` {
		if syntax.IsWordChar(m) {
			c.Add(&Case{Desc: fmt.Sprintf("oracle fact: IsWordChar(%q) must be false", m), Direct: "oracle hypothesis meta_not_word violated"})
		}
	}
	if unicode.IsPrint(0x378) {
		c.Add(&Case{Desc: "oracle fact: IsPrint(U+0378) expected false", Direct: "oracle hypothesis violated"})
	}
	n := c.N(20000, 400000)
	for i := 0; i < n; i++ {
		s := c19RandString(c.Rng, 12)
		str := string(s)
		esc := regexp2.Escape(str)
		escR := []rune(esc)
		cs := &Case{Desc: fmt.Sprintf("Escape(%+q) = %+q", str, esc), ModelLeg: 1901,
			ModelIn: append(encOracle(s, unicode.IsPrint), encRunes(s)...), ImplOut: encRunes(escR),
			Nontrivial: esc != str, Class: "escape"}
		back, err := regexp2.Unescape(esc)
		if err != nil {
			cs.Direct = fmt.Sprintf("Unescape(Escape(s)) failed: %v", err)
		} else if back != str {
			cs.Direct = fmt.Sprintf("Unescape(Escape(s)) = %+q, want s", back)
		}
		if cs.Direct != "" {
			cs.Guard = guardC19(s)
		}
		c.Add(cs)

		// Unescape on arbitrary escape-shaped text (valid and malformed)
		var t []rune
		if c.Rng.Bool() {
			t = mutateRunes(c.Rng, escR)
		} else {
			t = c19EscapeShaped(c.Rng)
		}
		ts := string(t)
		tr := []rune(ts)
		got, err := regexp2.Unescape(ts)
		var implOut []int64
		if err != nil {
			implOut = []int64{1, syntaxErrCode(err)}
		} else {
			implOut = append([]int64{0}, encRunes([]rune(got))...)
		}
		c.Add(&Case{Desc: fmt.Sprintf("Unescape(%+q) = %+q, %v", ts, got, err), ModelLeg: 1902,
			ModelIn: append(encOracle(tr, syntax.IsWordChar), encRunes(tr)...), ImplOut: implOut,
			Nontrivial: err == nil && got != ts, Class: fmt.Sprintf("unescape-err=%v", err != nil)})
	}
}

func mutateRunes(r *Rng, s []rune) []rune {
	out := append([]rune(nil), s...)
	k := 1 + r.Intn(2)
	for ; k > 0; k-- {
		switch r.Intn(4) {
		case 0:
			if len(out) > 0 {
				i := r.Intn(len(out))
				out = append(out[:i], out[i+1:]...)
			}
		case 1:
			i := r.Intn(len(out) + 1)
			out = append(out[:i], append([]rune{Pick(r, c19Interesting)}, out[i:]...)...)
		case 2:
			if len(out) > 0 {
				out[r.Intn(len(out))] = Pick(r, c19Interesting)
			}
		default:
			if len(out) > 0 {
				out = out[:r.Intn(len(out))]
			}
		}
	}
	for i, c := range out {
		if !utf8.ValidRune(c) {
			out[i] = 'a'
		}
	}
	return out
}

func c19EscapeShaped(r *Rng) []rune {
	var out []rune
	n := r.Intn(6)
	tails := []string{"x41", "x4", "x{41}", "x{110000}", "x{10FFFF}", "x{}", "x{4g}", "x{41", "u0041", "u004", "uD800", "u{41}", "101", "7", "08", "377", "400",
		"cA", "cz", "c", "c!", "c[", "a", "b", "e", "f", "n", "r", "t", "v", "w", "d", "k", "-", "\\", ".", " ", "é", "_", "Z", "1234"}
	for i := 0; i < n; i++ {
		if r.Chance(70) {
			out = append(out, '\\')
			out = append(out, []rune(Pick(r, tails))...)
		} else {
			out = append(out, Pick(r, c19Interesting))
		}
	}
	if r.Chance(10) {
		out = append(out, '\\')
	}
	for i, c := range out {
		if !utf8.ValidRune(c) {
			out[i] = 'a'
		}
	}
	return out
}

// Escape(s) compiled between \A(?: )\z matches exactly s under every literal-preserving option set.
func legC19Literal(c *Ctx) {
	c.Rule("Compile(`\\A(?:`+Escape(s)+`)\\z`, O) for O over subsets of {Multiline,Singleline,ExplicitCapture,IgnorePatternWhitespace,RightToLeft} optionally with one of ECMAScript, ECMAScript|Unicode, RE2, Unicode (combinations the compiler rejects even for the pattern `a` are skipped): must match s and reject 20 one-edit mutants; non-trivial = s contains a metacharacter, whitespace or non-printable (distinct by (s,O))")
	optBits := []regexp2.RegexOptions{regexp2.Multiline, regexp2.Singleline, regexp2.ExplicitCapture, regexp2.IgnorePatternWhitespace, regexp2.RightToLeft}
	n := c.N(1500, 40000)
	for i := 0; i < n; i++ {
		s := c19RandString(c.Rng, 8)
		str := string(s)
		esc := regexp2.Escape(str)
		var o regexp2.RegexOptions
		for _, b := range optBits {
			if c.Rng.Bool() {
				o |= b
			}
		}
		class := "literal"
		if c.Rng.Chance(40) {
			// dialect options keep the literal meaning too; ECMAScript only combines with a few options
			d := Pick(c.Rng, []regexp2.RegexOptions{regexp2.ECMAScript, regexp2.ECMAScript | regexp2.Unicode, regexp2.RE2, regexp2.Unicode})
			if d&regexp2.ECMAScript != 0 {
				o &= regexp2.Multiline
			}
			o |= d
			if _, err := regexp2.Compile(`a`, o); err != nil {
				continue
			}
			class = "literal/dialect"
		}
		cs := &Case{Desc: fmt.Sprintf("literal: s=%+q escaped=%+q opts=%#x", str, esc, int(o)), Nontrivial: esc != str, Class: class}
		re, err := regexp2.Compile(`\A(?:`+esc+`)\z`, o)
		if err != nil {
			cs.Direct = "Escape(s) does not compile: " + err.Error()
			c.Add(cs)
			continue
		}
		if ok, err := re.MatchRunes(s); err != nil || !ok {
			cs.Direct = fmt.Sprintf("escaped pattern does not match s (ok=%v err=%v)", ok, err)
		}
		for k := 0; k < 20 && cs.Direct == ""; k++ {
			m := mutateRunes(c.Rng, s)
			if string(m) == str {
				continue
			}
			if ok, _ := re.MatchRunes(m); ok {
				cs.Direct = fmt.Sprintf("escaped pattern also matches %+q", string(m))
			}
		}
		c.Add(cs)
	}
}
