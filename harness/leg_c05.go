package main

// C05: the semantics-preserving tree rewrites never change a result: the same pattern compiled with a
// rewrite family switched off (hook gates) gives the same match and captures; and the reference
// semantics gives the same result on both exported trees.

import (
	"fmt"
	"strings"
	"sync"
	"time"

	"github.com/dlclark/regexp2/v2"
	"github.com/dlclark/regexp2/v2/syntax"
)

func init() {
	registerLeg("c05-gates", "C05", legGates)
}

var gateMu sync.Mutex

func compileGated(p patCase, gates uint32) (*regexp2.Regexp, *syntax.RegexTree, error) {
	gateMu.Lock()
	defer gateMu.Unlock()
	syntax.VerifGates = gates
	defer func() { syntax.VerifGates = 0 }()
	re, err := p.compile()
	if err != nil {
		return nil, nil, err
	}
	tree, err := syntax.Parse(p.pat, syntax.ParseOptions{RegexOptions: syntax.RegexOptions(p.o.bits()), CodeGen: p.cg})
	return re, tree, err
}

var rewriteShapes = []string{
	// loop followed by X (auto-atomic): disjoint and overlapping successors
	`a*b`, `a*ab`, `a+b`, `[ab]*c`, `[ab]*b`, `\w*\d`, `\d+\.`, `a*$`, `a*\b`, `\w+\b`, `a*(?=b)`, `a*(?!a)`, `a*?b`, `a+?b`, `[a-c]*?c`, `a*(b|c)`, `a*(b|a)`, `a*b*c`, `a*b?c`, `a*(?:bc)+`,
	`(a*b)+c`, `(?:a*b)*a`, `a{2,4}a`, `a{2,4}b`, `a*\n`, `.*b`, `.*\n`, `[^b]*b`, `[^b]*[bc]`, `\s*\S`, `\s*\w`, `a*\1|(a)`, `(a)*\1b`,
	// ending backtracking in atomic contexts
	`(?>a*)`, `(?>a*b*)`, `(?>(?:ab)*)`, `(?>a|ab)c`, `(?>ab|a)c`, `(?=a*b)a`, `(?!a+b)a`, `(?<=a*)b`, `(?<=ba*)c`, `(?<!a+)b`, `(?(a*)b|c)`, `(?(?=a+)ab|c)`, `(a*)+`, `((a)|b)*`, `(?>a??)b`, `(?>a*?)a`,
	// bump-along
	`a*b`, `\w*@`, `.*x`, `.*?x`, `(?>.*)x`, `[ab]+c`, `a*`, `(a*)b`, `a*|b`, `\s*a`, `(?s).*b`,
	// alternation prefix factoring and atomic reordering/trimming
	`(a*c?)b\1`, `(\w+,)\1`, `(a+b?)\1c`, `([ab]+c?)d\1`, `(a*)b\1`,
	`\d{2}a|\d{1,2}b`, `[xy]{3}a|[xy]{1,3}b`, `[ab]{2}c|[ab]{0,2}d`, `[^a]{2}b|[^a]{1,2}c`, `(?>[ab]{2}c|[ab]{1,2}d)`, `.{2}a|.{1,2}b`,
	`abc|abd`, `abc|abd|x`, `ab|ac|ad`, `(?>abc|abd)`, `(?>ab|abc|ad)e?`, `(?>hi|there|hello)`, `(?>a|b|ab)c`, `(?>ab||c)d`, `(?>|a)b`, `(?>a||b)`, `this|that|there`, `(?:this|that)s`, `[ab]c|[ab]d`, `a.b|a.c`,
	`(?>x(?:hi|there|hello))`, `(?>abc|abd|aec|abf)`, `(?i:abc|abd)`, `(abc|abd)\1`, `(?<=abc|abd)e`, `(?<=cba|dba)e`,
	// balancing groups: the close fails while the popped group is empty and the matcher backtracks into the
	// contents, so nothing inside is "at the end" (Properties/C05.v C05_R2_balancing_capture_refuted; fixed in 7e695b7)
	// shapes for the mutation tests: loop-led alternation branches (prefix extraction must skip variable-count loops),
	// bounded loops in front (no bump-along marker), atomic alternations where a later branch is a prefix of an earlier one's sibling
	`a*a|a*b`, `a+b|a+c`, `[ab]*a|[ab]*c`, `a{2}b|a{2}c`, `a*?b|a*?c`, `(?>a*a|a*b)`, `a{1,2}b`, `a{1,3}b`, `[ab]{1,2}c`, `a{0,2}?b`,
	`(?>x|ab|a)b?`, `(?>xy|ab|a)b?`, `(?>hi|hello|he|there)l?`, `(?>b|ab|a|abc)c?`,
	// \B after a loop of non-word characters at the end of the pattern: holds between two loop characters, may fail
	// after the last one (known finding c05-nonboundary-end until fixed); sound when something disjoint follows
	`(?>-+\B|-+)a`, `(?>-+\B(?:1*|x*)|-+)a`, `(?>\W+\B|\W)\w`, `\W+\B`, `-+\B`, `\D+\B`, `\W+\B\d*`, `[-.]+\B`, `\W+\B\w`, `\w+\B`, `\w+\b\s*`, `(?>\W+)\B`, `\s+\B`,
	// regression shapes of fixed defects: right-to-left loops inside lookbehinds reached by ending-backtracking removal
	// (cad7f1b), an overlapping nullable set loop stepped over by canBeMadeAtomic (af08c9d), atomic child loops under a
	// quantifier (571b434; same tree with every gate, kept for the reference-semantics half of the leg)
	`(?<=(?:a*ba){2})`, `(?<=(?:a*$){2})`, `(?<=(?:a*\z){2})c?`, `(?<=(?:[ab]*ba){2,3})`, `(?<!(?:a*ba){2})a`, `(?<=(?:a+b){2})`,
	`[ab]+(?=[ab]*c)[ab]c`, `\w+(?=\w*\.)[ab]\.`, `[ab]+(?=[ab]*?c)[ab]c`, `[ab]*(?:[ab]+\w{0,2}?(?=[ab]*?\S*-)|\z[a-]){2}`, `[ab]*[cd]*e`, `[ab]+[bc]?c`,
	`(?>a+)?ab`, `(?>a?){2,}ab`, `(?>a*)?aab`, `(?>a{1,2}){2}`, `(?>a*)+b`,
	// loops that can consume a newline in front of an end anchor: only \z is unconditional, `$` (end or before a final
	// newline; every line end under Multiline) and \Z need a loop that cannot take the newline
	`\s*$`, `a\s*$`, `^\s*$\n`, `\n*$\n\nx`, `[^ab]*$\nc`, `(\s*)$`, `\W+$`, `[\s,]+$`, `\s*\Z`, `\n*\Z`, `[^a]*\z`, `\s+$\s`, `a\n*$\nb`, `[^ab]*$`, `\s*?$`, `(?>\s*)$`, `\n+$`,
	// atomic alternations matched right to left (RightToLeft option, lookbehind): a literal branch is then matched from its LAST character
	`(?>cq|xa|cxa)`, `(?<=(?>cq|(x)a|cxa))$`, `(?<=b(?>cq|xa|cxa))$`, `(?>ab|cb|acb)`, `(?<=(?>ab|b|cab))x`, `(?>a|ba|ca|bca)$`,
	// a loop over a class given by a Unicode category (no ranges of its own) in front of a class whose RANGE holds the
	// category's members strictly inside (and the other way round): the overlap test has to look inside the range
	`\d*[!-~]`, `(\d*)[!-~]`, `\d+[0-z]`, `\s*[\x00-\x7f]`, `\w*[!-~]x`, `\p{Lu}*[@-z]`, `\d*[^a]`, `[!-~]*\d`, `[0-z]+\p{Lu}`, `[\d]+[!-~]{1,2}`, `\p{Nd}*?[!-~]$`, `(?>\d*[!-~]|1)2`,
	`(?<a-b>x|(?<b>x))`, `(?=(?<a-b>x|(?<b>x)))x`, `a(?<a-b>(?<b>x)*?|x)`, `(?>(?<a-b>x*?|(?<b>x)))`, `(?<b>a)?(?<a-b>x|(?<b>x))c?`, `(?<a-b>(?:x|(?<b>x))+?)`, `(?<b>a)(?<-b>x*)x`,
}

// legGates: result(normal) == result(rewrite family switched off), on the real engine and on the reference semantics.
func legGates(c *Ctx) {
	c.Rule("patterns biased to the rewrite shapes (loop followed by X, alternations with shared prefixes, nested atomic groups, lookarounds incl. lookbehind, conditionals) + random ASTs + harvested patterns, x options; compiled normally and with each rewrite family switched off (hook gates 1,2,4,8,16 and all 31); compared on every string up to length 4 over the pattern alphabet (sampled when large) x every start offset plus random longer strings plus, when the two trees differ, every string of length 4-5 (6) over the pattern's first two letters: real search and accelerator-free scan must agree between the two compilations; model: Spec.find on the exported tree with rewrites off must equal the engine's result (the tree with rewrites on is covered by leg c01-sem); non-trivial = the two exported trees differ (a rewrite fired) and a match exists (distinct by pattern,options,gate,input,start)")
	var pats []patCase
	for _, s := range rewriteShapes {
		for _, o := range []Opts{{}, {I: true}, {S: true}, {M: true}, {RTL: true}} {
			pats = append(pats, patCase{pat: s, o: o, alpha: []rune{'a', 'b', 'c', 'd', 'x', 'y', '\n', '.', '1', '2', ' ', 'h', 'i', 't', 'e', 'A'}})
		}
	}
	// a single-character loop, an OPTIONAL multi-character group, then something the loop overlaps (or not): what
	// follows the loop is whatever follows the group as much as the group's first node
	for _, l := range []string{`a*`, `a+`, `[ab]*`, `\d*`} {
		for _, g := range []string{`(?:bc)?`, `(?:bc)*`, `(b|c)?`, `(?:b+c)?`, `(?:\.\d+)?`, `(?:bc)??`, `(?:bc){0,2}`} {
			for _, f := range []string{`a`, `[ab]c`, `\d`} {
				if c.Thorough || c.Rng.Chance(40) {
					for _, o := range []Opts{{}, {RTL: true}} {
						pats = append(pats, patCase{pat: l + g + f, o: o, alpha: []rune{'a', 'b', 'c', '1', '.', 'x'}})
					}
				}
			}
		}
	}
	// a loop inside the body of a REPEATED group, with only nullable things after it in the body: what follows the
	// loop is the start of the next iteration as much as what follows the group
	for _, b := range []string{`[ab]a*`, `[ab]a*c*`, `([ab])(a*)c?`, `[ab]a+(?:c*|e*)`, `a*b?`, `[ab]a*?c*`} {
		for _, q := range []string{`{2}`, `{2,}`, `*`, `+`, `{2,}?`, `{1,3}`} {
			for _, f := range []string{`d`, `$`, ``} {
				if c.Thorough || c.Rng.Chance(35) {
					pats = append(pats, patCase{pat: `(?:` + b + `)` + q + f, alpha: []rune{'a', 'b', 'c', 'd', 'e'}},
						patCase{pat: `x(?>(?:` + b + `)` + q + `)` + f, alpha: []rune{'a', 'b', 'c', 'd', 'x'}})
				}
			}
		}
	}
	pats = append(pats, genPatterns(c.Rng, c.N(300, 8000), true)...)
	for _, h := range harvestedPatterns() {
		if c.Rng.Chance(c.N(30, 100)) {
			pats = append(pats, patCase{pat: h, alpha: []rune("abcxyz01 \n-_@.AZ")})
		}
	}
	fired := map[uint32]int{}
	for _, p := range pats {
		on, treeOn, err := compileGated(p, 0)
		if err != nil {
			continue
		}
		onWire := ExportTree(treeOn, on.VerifCode())
		nbGuard := nonboundaryAtEnd(treeOn.Root)
		gates := []uint32{31, 1, 2, 4, 8, 16}
		for gi, g := range gates {
			if gi > 0 && !c.Rng.Chance(35) {
				continue
			}
			off, treeOff, err := compileGated(p, g)
			if err != nil {
				c.Add(&Case{Desc: fmt.Sprintf("pattern %q opts=%s gate=%d", p.pat, p.o, g), Direct: "pattern compiles with rewrites on but not with them off: " + err.Error()})
				continue
			}
			off.MatchTimeout = 300 * time.Millisecond
			offWire := ExportTree(treeOff, off.VerifCode())
			differs := !eqInts(onWire.Words, offWire.Words)
			if differs {
				fired[g]++
			} else if gi > 0 {
				continue
			}
			al := p.alpha
			if len(al) > 5 {
				al = append([]rune{}, al...)
				for i := range al {
					j := i + c.Rng.Intn(len(al)-i)
					al[i], al[j] = al[j], al[i]
				}
				keep := al[:4]
				for _, ch := range p.pat {
					if ch >= 'a' && ch <= 'z' && len(keep) < 7 && !containsRune(keep, ch) {
						keep = append(keep, ch)
					}
				}
				if strings.Contains(p.pat, `\d`) && !containsRune(keep, '1') {
					keep = append(keep, '1')
				}
				// patterns about white space, newlines and line ends get the newline and the blank
				if strings.Contains(p.pat, `\s`) || strings.Contains(p.pat, `\n`) || strings.Contains(p.pat, `$`) || strings.Contains(p.pat, `\Z`) || strings.Contains(p.pat, `\W`) {
					for _, ch := range []rune{'\n', ' '} {
						if !containsRune(keep, ch) {
							keep = append(keep, ch)
						}
					}
				}
				al = keep
			}
			var inputs [][]rune
			maxLen := c.N(3, 4)
			allStrings(al, maxLen, func(s []rune) { inputs = append(inputs, s) })
			for k := 0; k < 10; k++ {
				inputs = append(inputs, randString(c.Rng, al, 10))
			}
			// every string up to length 5 (6) over the first two letters of the pattern: long enough to run a
			// bounded loop to its maximum and still have loop characters left (bump-along), always included
			two := []rune{}
			for _, ch := range p.pat {
				if ch >= 'a' && ch <= 'z' && len(two) < 2 && !containsRune(two, ch) {
					two = append(two, ch)
				}
			}
			for _, ch := range []rune{'a', 'b'} {
				if len(two) < 2 && !containsRune(two, ch) {
					two = append(two, ch)
				}
			}
			nDirected := 0
			if differs {
				allStrings(two, c.N(5, 6), func(s []rune) {
					if len(s) > maxLen {
						inputs = append(inputs, append([]rune{}, s...))
						nDirected++
					}
				})
			}
			budget := c.N(90, 500)
			for idx, in := range inputs {
				if idx > 20 && idx < len(inputs)-nDirected && len(inputs) > budget && c.Rng.Intn(len(inputs)) >= budget {
					continue
				}
				directed := idx >= len(inputs)-nDirected
				for start := 0; start <= len(in); start++ {
					if directed && start > 0 {
						break // the directed strings are about what the scan does from the left edge
					}
					if start > 0 && start < len(in) && c.Rng.Chance(60) {
						continue
					}
					desc := fmt.Sprintf("pattern %q opts=%s gate=%d input %+q start=%d", p.pat, p.o, g, string(in), start)
					a1, e1 := on.FindRunesMatchStartingAt(in, start)
					a2, e2 := off.FindRunesMatchStartingAt(in, start)
					n1, e3 := on.VerifNaiveScan(in, start, start, -1)
					n2, e4 := off.VerifNaiveScan(in, start, start, -1)
					if e1 != nil || e2 != nil || e3 != nil || e4 != nil {
						c.Hist("timeout-skipped")
						continue
					}
					cs := &Case{Desc: desc, Nontrivial: differs && a2 != nil, Key: desc, Class: fmt.Sprintf("gate%d", g)}
					if g&1 != 0 && nbGuard {
						cs.Guard = "c05-nonboundary-end"
						c.Hist("guarded-c05-nonboundary-end")
					}
					switch {
					case !matchEq(a1, a2):
						cs.Direct = fmt.Sprintf("search with rewrites on returned %s, with the rewrite family off %s", matchStr(a1), matchStr(a2))
					case !matchEq(n1, n2):
						cs.Direct = fmt.Sprintf("accelerator-free scan with rewrites on returned %s, with the rewrite family off %s", matchStr(n1), matchStr(n2))
					}
					// reference semantics on the un-rewritten tree
					if differs && c.Rng.Chance(50) && (!directed || c.Rng.Chance(25)) {
						cs.ModelLeg = 103
						cs.ModelIn = append(append(encEnv(in, start, p.o, offWire.Sets, offWire.Slots), offWire.Words...), b2i(p.o.RTL), int64(start), -1, semFuel)
						cs.ImplOut = encMatch(a1, nil)
					}
					c.Add(cs)
				}
			}
		}
	}
	for _, g := range []uint32{1, 2, 4, 8, 16} {
		c.Gate(fmt.Sprintf("rewrite family %d changed some tree", g), fired[g] > 0)
		c.res.Histogram[fmt.Sprintf("family%d-fired", g)] = fired[g]
	}
}

// Guard of the known finding c05-nonboundary-end (Properties/C05.v C05_R4_nonboundary_at_end_refuted): the tree
// compiled with the rewrites on contains an atomic single-character loop with min > 0 whose next sibling (past the
// bump-along marker) is \B, and from that \B to the end of the pattern only nodes that can match the empty string
// follow, walking up exactly as canBeMadeAtomic does (through Concatenate tails, Capture, Atomic, Alternate).
func nonboundaryAtEnd(n *syntax.RegexNode) bool {
	if n == nil {
		return false
	}
	if n.T == syntax.NtConcatenate {
		for i, ch := range n.Children {
			if (ch.T == syntax.NtOneloopatomic || ch.T == syntax.NtSetloopatomic) && ch.M > 0 {
				j := i + 1
				if j < len(n.Children) && n.Children[j].T == syntax.NtUpdateBumpalong {
					j++
				}
				if j < len(n.Children) && (n.Children[j].T == syntax.NtNonboundary || n.Children[j].T == syntax.NtNonECMABoundary) &&
					onlyNullableToEnd(n, j+1) {
					return true
				}
			}
		}
	}
	for _, ch := range n.Children {
		if nonboundaryAtEnd(ch) {
			return true
		}
	}
	return false
}

// every sibling of concat from index i on can match the empty string, and so on up to the root
func onlyNullableToEnd(concat *syntax.RegexNode, i int) bool {
	for ; i < len(concat.Children); i++ {
		if !c05Nullable(concat.Children[i]) {
			return false
		}
	}
	node := concat
	for node.Parent != nil {
		p := node.Parent
		switch p.T {
		case syntax.NtAtomic, syntax.NtAlternate, syntax.NtCapture:
			node = p
		case syntax.NtConcatenate:
			idx := -1
			for k, ch := range p.Children {
				if ch == node {
					idx = k
				}
			}
			for k := idx + 1; k < len(p.Children); k++ {
				if !c05Nullable(p.Children[k]) {
					return false
				}
			}
			node = p
		default:
			return false
		}
	}
	return true
}

func c05Nullable(n *syntax.RegexNode) bool {
	switch n.T {
	case syntax.NtEmpty, syntax.NtUpdateBumpalong, syntax.NtBol, syntax.NtEol, syntax.NtBoundary, syntax.NtNonboundary, syntax.NtECMABoundary,
		syntax.NtNonECMABoundary, syntax.NtBeginning, syntax.NtStart, syntax.NtEndZ, syntax.NtEnd, syntax.NtPosLook, syntax.NtNegLook:
		return true
	case syntax.NtOneloop, syntax.NtNotoneloop, syntax.NtSetloop, syntax.NtOnelazy, syntax.NtNotonelazy, syntax.NtSetlazy,
		syntax.NtOneloopatomic, syntax.NtNotoneloopatomic, syntax.NtSetloopatomic, syntax.NtLoop, syntax.NtLazyloop:
		return n.M == 0 || (len(n.Children) == 1 && c05Nullable(n.Children[0]))
	case syntax.NtConcatenate:
		for _, ch := range n.Children {
			if !c05Nullable(ch) {
				return false
			}
		}
		return true
	case syntax.NtAlternate:
		for _, ch := range n.Children {
			if c05Nullable(ch) {
				return true
			}
		}
		return false
	case syntax.NtCapture, syntax.NtAtomic, syntax.NtGroup:
		return len(n.Children) == 1 && c05Nullable(n.Children[0])
	}
	return false
}
