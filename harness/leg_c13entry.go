package main

// C13 at the multi-scan entry points: a call that iterates over matches (find-all, Replace, ReplaceFunc, Split, a
// FindNextMatch chain) under a backtracking-stack limit L returns exactly what it returns without a limit, or fails
// with ErrBacktrackingStackLimit — also when the limit strikes on a LATER scan, after earlier matches were produced.
// (c13-vm compares single scans with the interpreter model; this leg covers the loops around them.)

import (
	"errors"
	"fmt"
	"strings"
	"time"

	"github.com/dlclark/regexp2/v2"
)

func init() { registerLeg("c13-entry", "C13", legC13Entry) }

func legC13Entry(c *Ctx) {
	c.Rule("patterns with a cheap branch and a branch needing backtracking depth proportional to the text (`,|(?:ab)+c`, `\\d|(?:ab?)*c`, `(;)|(?:[ab]b?)+!`, their right-to-left mirrors, a capture-bearing variant) x texts made of k cheap matches before/after/between deep stretches of 0..200 repetitions (random order) x L in {0..64 sampled, 65, 100, 129, 200, 257, 400, 1000, default, -1} x {MatchString first, then FindAllStringIndex, a FindStringMatch+FindNextMatch chain, FindAllRunesIndex, Replace, ReplaceFunc, Split with count -1 and 3, MatchString again — all on ONE Regexp per limit, so that pooled runners and the bool-only program are shared between the calls; two patterns have many unreferenced groups inside a loop}: result == unlimited result, or error == ErrBacktrackingStackLimit; raising L never turns a success into an error; never a panic; non-trivial = the limit struck after at least one match had been produced (distinct by pattern,text,L,entry)")
	type spec struct {
		pat   string
		rtl   bool
		cheap []string
		deep  func(n int) string
	}
	specs := []spec{
		{`,|(?:ab)+c`, false, []string{",", "1,", "x,y"}, func(n int) string { return strings.Repeat("ab", n) + "c" }},
		{`(\d)|(?:ab?)*c`, false, []string{"7", " 8 ", "x9"}, func(n int) string { return strings.Repeat("ab", n) + "c" }},
		{`(;)|(?:[ab]b?)+!`, false, []string{";", "q;", ";;"}, func(n int) string { return strings.Repeat("ab", n) + "!" }},
		{`,|c(?:ab)+`, true, []string{",", "1,", "x,y"}, func(n int) string { return "c" + strings.Repeat("ab", n) }},
		{`(\d)|c(?:ab?)*`, true, []string{"7", " 8 ", "x9"}, func(n int) string { return "c" + strings.Repeat("ab", n) }},
		{`(?<s>-)|(?:(a)|b)+\.`, false, []string{"-", "z-", "--"}, func(n int) string { return strings.Repeat("ab", n) + "." }},
		// many capture groups nobody refers to, inside a loop: the bool-only program of this pattern is much smaller than
		// the full one, and one pooled runner serves both
		{`^(?:(a)(b)(c)(d)(e)(f)(g)(h)(i)(j))*$`, false, []string{"", "", "abcdefghij"}, func(n int) string { return strings.Repeat("abcdefghij", n/4) }},
		{`(?:(a)(b)(c)(d)(e)(f)|(x))+;`, false, []string{"x;", ";", "abcdef;"}, func(n int) string { return strings.Repeat("abcdef", n/3) + ";" }},
	}
	limits := []int{0, 1, 2, 3, 5, 8, 13, 21, 32, 33, 48, 64, 65, 100, 129, 200, 257, 400, 1000, 20000, 100000, -1, -2}
	entries := []string{"MatchString", "FindAllStringIndex", "chain", "FindAllRunesIndex", "Replace", "ReplaceFunc", "Split", "Split3", "MatchString"}
	call := func(re *regexp2.Regexp, entry, text string) (out string, err error, produced int) {
		defer func() {
			if p := recover(); p != nil {
				out, err = fmt.Sprint("PANIC ", p), nil
			}
		}()
		switch entry {
		case "FindAllStringIndex":
			r, e := re.FindAllStringIndex(text, -1)
			return fmt.Sprint(r), e, len(r)
		case "FindAllRunesIndex":
			r, e := re.FindAllRunesIndex([]rune(text), -1)
			return fmt.Sprint(r), e, len(r)
		case "Replace":
			s, e := re.Replace(text, "<$&>", -1, -1)
			return s, e, strings.Count(s, "<")
		case "ReplaceFunc":
			k := 0
			s, e := re.ReplaceFunc(text, func(m regexp2.Match) string { k++; return "[" + m.String() + "]" }, -1, -1)
			return s, e, k
		case "Split":
			r, e := re.Split(text, -1)
			return fmt.Sprintf("%q", r), e, len(r)
		case "Split3":
			r, e := re.Split(text, 3)
			return fmt.Sprintf("%q", r), e, len(r)
		case "chain":
			var sb strings.Builder
			m, e := re.FindStringMatch(text)
			k := 0
			for m != nil && e == nil {
				fmt.Fprintf(&sb, "(%d,%d)", m.RuneIndex, m.RuneLength)
				k++
				m, e = re.FindNextMatch(m)
			}
			return sb.String(), e, k
		default:
			b, e := re.MatchString(text)
			return fmt.Sprint(b), e, 0
		}
	}
	compile := func(sp spec, L int) *regexp2.Regexp {
		var opts []regexp2.CompileOption
		if sp.rtl {
			opts = append(opts, regexp2.RightToLeft)
		}
		if L != -2 {
			opts = append(opts, regexp2.OptionMaxBacktrackingStackSize(L))
		}
		re := regexp2.MustCompile(sp.pat, opts...)
		re.MatchTimeout = 5 * time.Second
		return re
	}
	nText := c.N(6, 40)
	for _, sp := range specs {
		for t := 0; t < nText; t++ {
			// a text: 2..6 segments, cheap ones and deep ones of varying depth
			var sb strings.Builder
			nseg := 2 + c.Rng.Intn(5)
			for s := 0; s < nseg; s++ {
				if c.Rng.Chance(55) {
					sb.WriteString(Pick(c.Rng, sp.cheap))
				} else {
					sb.WriteString(sp.deep(Pick(c.Rng, []int{0, 1, 2, 5, 12, 13, 30, 60, 200})))
				}
				if c.Rng.Chance(30) {
					sb.WriteString(" ")
				}
			}
			if t == 0 {
				// the directed shape: cheap matches first, the deep one last (first, for right-to-left)
				sb.Reset()
				if sp.rtl {
					sb.WriteString(sp.deep(200) + sp.cheap[0] + "2" + sp.cheap[0] + "1")
				} else {
					sb.WriteString("1" + sp.cheap[0] + "2" + sp.cheap[0] + sp.deep(200))
				}
				if strings.HasPrefix(sp.pat, "^") {
					sb.Reset()
					sb.WriteString(sp.deep(40))
				}
			}
			text := sb.String()
			// one Regexp per limit serves all entry points in turn, the bool-only one first (the Regexp "stays fully usable":
			// pooled runners and programs are shared between the calls)
			shared := map[int]*regexp2.Regexp{}
			for _, L := range limits {
				shared[L] = compile(sp, L)
				if (L < 0 || L >= 20000) && t%2 == 0 {
					// a deep but legal match first: the runner goes back to the pool with a stack grown far beyond its initial
					// size, and must serve the calls below like a new one
					shared[L].MatchString(sp.deep(2600))
					shared[L].FindStringMatch(sp.deep(2600))
					c.Hist("warmed-up-with-a-deep-match")
				}
			}
			for _, entry := range entries {
				ref, rerr, _ := call(compile(sp, -1), entry, text)
				if rerr != nil || strings.HasPrefix(ref, "PANIC") {
					c.Add(&Case{Desc: fmt.Sprintf("pattern %q rtl=%v text %q %s without a limit", sp.pat, sp.rtl, text, entry), Direct: fmt.Sprintf("the unlimited call fails: %s %v", ref, rerr), Class: "unlimited-fails"})
					continue
				}
				okSeen := -1
				for _, L := range limits {
					if L >= 0 && L <= 64 && L != 0 && c.Rng.Chance(40) && t != 0 {
						continue
					}
					got, err, produced := call(shared[L], entry, text)
					cs := &Case{Desc: fmt.Sprintf("pattern %q rtl=%v text %q L=%d %s", sp.pat, sp.rtl, text, L, entry), Key: fmt.Sprintf("%s|%v|%s|%d|%s", sp.pat, sp.rtl, text, L, entry), Class: entry}
					switch {
					case strings.HasPrefix(got, "PANIC"):
						cs.Direct = got
					case err != nil && !errors.Is(err, regexp2.ErrBacktrackingStackLimit):
						cs.Direct = fmt.Sprintf("fails with %v, neither the unlimited result nor ErrBacktrackingStackLimit", err)
					case err != nil:
						cs.Nontrivial = produced > 0 || entry == "Split" || entry == "Split3" || entry == "Replace"
						if okSeen >= 0 && L >= 0 {
							cs.Direct = fmt.Sprintf("succeeds with L=%d but fails with the larger L=%d", okSeen, L)
						}
						if L < 0 {
							cs.Direct = "ErrBacktrackingStackLimit although the limit is disabled / default on a text this small"
						}
						c.Hist("limit-error")
					case got != ref:
						cs.Direct = fmt.Sprintf("returns %.200s with a nil error; without a limit the call returns %.200s", got, ref)
					default:
						if L >= 0 && okSeen < 0 {
							okSeen = L
						}
						c.Hist("same-as-unlimited")
					}
					c.Add(cs)
				}
			}
		}
	}
}
