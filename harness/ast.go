package main

// Source-level regex ASTs: generator, printer (AST -> pattern text) and an elaborator
// (AST -> model tree) that is independent of regexp2's parser.  The model side of the
// L-sem leg only ever sees the elaborated tree, never the pattern text.

import (
	"fmt"
	"strings"
	"unicode"
)

type AKind int

const (
	ALit AKind = iota
	ADot
	AClass
	AAnchor // Name: "^" "$" "\\A" "\\z" "\\Z" "\\b" "\\B" "\\G"
	AConcat
	AAlt
	ARep      // Min, Max (-1 = inf), Lazy
	AGroup    // capturing, Name optional
	ANonCap   // (?: )
	ALook     // Neg, Behind
	AAtomic   // (?> )
	ABackref  // Ref = index into capture list (1-based order of '(' among capturing groups) or Name
	ACondRef  // (?(N)yes|no)
	ACondExpr // (?(?=cond)yes|no)  Kids[0] is an ALook
	AOptGroup // (?i-m: ... )  On/Off flags
)

type ClassItem struct {
	Lo, Hi rune   // range (Lo==Hi: single)
	Short  byte   // 'd','w','s','D','W','S' or 0
}

type Ast struct {
	Kind    AKind
	Ch      rune
	Name    string
	Items   []ClassItem
	Neg     bool
	Behind  bool
	Min     int
	Max     int
	Lazy    bool
	On, Off string // AOptGroup: letters among imsnx
	ForceBare bool // AOptGroup: always use the stand-alone spelling where it is allowed
	Bare    bool   // AOptGroup at the tail of its enclosing group: printed as the stand-alone form (?on-off) followed by its body
	Ref     int
	Kids    []*Ast
}

// ---------- options ----------

type Opts struct {
	I, M, S, N, X bool
	RTL, RE2, ECMA bool
}

func (o Opts) bits() int {
	b := 0
	if o.I {
		b |= 1
	}
	if o.M {
		b |= 2
	}
	if o.N {
		b |= 4
	}
	if o.S {
		b |= 0x10
	}
	if o.X {
		b |= 0x20
	}
	if o.RTL {
		b |= 0x40
	}
	if o.ECMA {
		b |= 0x100
	}
	if o.RE2 {
		b |= 0x200
	}
	return b
}

func (o Opts) String() string {
	s := ""
	for _, p := range []struct {
		b bool
		c string
	}{{o.I, "i"}, {o.M, "m"}, {o.S, "s"}, {o.N, "n"}, {o.X, "x"}, {o.RTL, "r"}, {o.RE2, "RE2"}, {o.ECMA, "e"}} {
		if p.b {
			s += p.c
		}
	}
	if s == "" {
		return "-"
	}
	return s
}

func (o Opts) apply(on, off string) Opts {
	set := func(c byte, v bool) {
		switch c {
		case 'i':
			o.I = v
		case 'm':
			o.M = v
		case 's':
			o.S = v
		case 'n':
			o.N = v
		case 'x':
			o.X = v
		}
	}
	for i := 0; i < len(on); i++ {
		set(on[i], true)
	}
	for i := 0; i < len(off); i++ {
		set(off[i], false)
	}
	return o
}

// ---------- printer ----------

const metaChars = `\.+*?()|[]{}^$# `

func printLit(sb *strings.Builder, c rune, o Opts) {
	switch {
	case c == '\n':
		sb.WriteString(`\n`)
	case c == '\t':
		sb.WriteString(`\t`)
	case c == '\r':
		sb.WriteString(`\r`)
	case strings.ContainsRune(metaChars, c):
		sb.WriteByte('\\')
		sb.WriteRune(c)
	case c < 0x20 || c == 0x7f:
		fmt.Fprintf(sb, `\x%02x`, c)
	default:
		sb.WriteRune(c)
	}
}

func printClassChar(sb *strings.Builder, c rune) {
	switch {
	case c == '\n':
		sb.WriteString(`\n`)
	case c == '\t':
		sb.WriteString(`\t`)
	case c == '\r':
		sb.WriteString(`\r`)
	case strings.ContainsRune(`\]^-[`, c) || c == ' ' || c == '#':
		sb.WriteByte('\\')
		sb.WriteRune(c)
	case c < 0x20 || c == 0x7f:
		fmt.Fprintf(sb, `\x%02x`, c)
	default:
		sb.WriteRune(c)
	}
}

func (a *Ast) print(sb *strings.Builder, o Opts, r *Rng) {
	ws := func() {
		if o.X && r != nil && r.Chance(30) {
			sb.WriteString(Pick(r, []string{" ", "  ", "\t", "\n", " #c\n"}))
		}
	}
	switch a.Kind {
	case ALit:
		printLit(sb, a.Ch, o)
	case ADot:
		sb.WriteByte('.')
	case AClass:
		sb.WriteByte('[')
		if a.Neg {
			sb.WriteByte('^')
		}
		for _, it := range a.Items {
			if it.Short != 0 {
				sb.WriteByte('\\')
				sb.WriteByte(it.Short)
			} else if it.Lo == it.Hi {
				printClassChar(sb, it.Lo)
			} else {
				printClassChar(sb, it.Lo)
				sb.WriteByte('-')
				printClassChar(sb, it.Hi)
			}
		}
		sb.WriteByte(']')
	case AAnchor:
		sb.WriteString(a.Name)
	case AConcat:
		for _, k := range a.Kids {
			ws()
			k.printAtom(sb, o, r, false)
		}
		ws()
	case AAlt:
		for i, k := range a.Kids {
			if i > 0 {
				sb.WriteByte('|')
			}
			k.print(sb, o, r)
		}
	case ARep:
		a.Kids[0].printAtom(sb, o, r, true)
		switch {
		case a.Min == 0 && a.Max == -1:
			sb.WriteByte('*')
		case a.Min == 1 && a.Max == -1:
			sb.WriteByte('+')
		case a.Min == 0 && a.Max == 1:
			sb.WriteByte('?')
		case a.Max == -1:
			fmt.Fprintf(sb, "{%d,}", a.Min)
		case a.Min == a.Max:
			fmt.Fprintf(sb, "{%d}", a.Min)
		default:
			fmt.Fprintf(sb, "{%d,%d}", a.Min, a.Max)
		}
		if a.Lazy {
			sb.WriteByte('?')
		}
	case AGroup:
		if a.Name != "" {
			sb.WriteString("(?<" + a.Name + ">")
		} else {
			sb.WriteByte('(')
		}
		a.Kids[0].print(sb, o, r)
		sb.WriteByte(')')
	case ANonCap:
		sb.WriteString("(?:")
		a.Kids[0].print(sb, o, r)
		sb.WriteByte(')')
	case ALook:
		sb.WriteString("(?")
		if a.Behind {
			sb.WriteByte('<')
		}
		if a.Neg {
			sb.WriteByte('!')
		} else {
			sb.WriteByte('=')
		}
		a.Kids[0].print(sb, o, r)
		sb.WriteByte(')')
	case AAtomic:
		sb.WriteString("(?>")
		a.Kids[0].print(sb, o, r)
		sb.WriteByte(')')
	case ABackref:
		if a.Name != "" {
			sb.WriteString(`\k<` + a.Name + `>`)
		} else {
			fmt.Fprintf(sb, `\%d`, a.Ref)
		}
	case ACondRef:
		if a.Name != "" {
			sb.WriteString("(?(" + a.Name + ")")
		} else {
			fmt.Fprintf(sb, "(?(%d)", a.Ref)
		}
		a.Kids[0].printAtomAlt(sb, o, r)
		if len(a.Kids) > 1 {
			sb.WriteByte('|')
			a.Kids[1].printAtomAlt(sb, o, r)
		}
		sb.WriteByte(')')
	case ACondExpr:
		sb.WriteString("(?")
		a.Kids[0].print(sb, o, r)
		a.Kids[1].printAtomAlt(sb, o, r)
		if len(a.Kids) > 2 {
			sb.WriteByte('|')
			a.Kids[2].printAtomAlt(sb, o, r)
		}
		sb.WriteByte(')')
	case AOptGroup:
		sb.WriteString("(?" + a.On)
		if a.Off != "" {
			sb.WriteString("-" + a.Off)
		}
		if a.Bare {
			// stand-alone spelling: the setting lasts to the end of the enclosing group, which is where this node ends
			sb.WriteByte(')')
			a.Kids[0].print(sb, o.apply(a.On, a.Off), r)
			return
		}
		sb.WriteByte(':')
		a.Kids[0].print(sb, o.apply(a.On, a.Off), r)
		sb.WriteByte(')')
	}
}

// markBare picks, at random, option groups that may be written in the stand-alone spelling: those whose body ends
// exactly where the enclosing group (or the pattern) ends, so that "(?n)body" and "(?n:body)" mean the same.
func (a *Ast) markBare(r *Rng, tail bool) {
	switch a.Kind {
	case AConcat:
		for i, k := range a.Kids {
			k.markBare(r, tail && i == len(a.Kids)-1)
		}
	case AAlt:
		for i, k := range a.Kids {
			k.markBare(r, tail && i == len(a.Kids)-1)
		}
	case AGroup, ANonCap, AAtomic, ALook:
		for _, k := range a.Kids {
			k.markBare(r, true)
		}
	case AOptGroup:
		a.Bare = tail && a.Kids[0].Kind != AAlt && (a.ForceBare || r.Chance(50))
		a.Kids[0].markBare(r, !a.Bare || tail) // scoped spelling: a new group; bare: still at the tail of the outer one
	default:
		for _, k := range a.Kids {
			k.markBare(r, false)
		}
	}
}

// regexp2 (like .NET) rejects an inline-option group that is a direct child of an expression
// conditional: such groups are printed inside (?: ).
func shieldOptGroups(a *Ast) *Ast {
	switch a.Kind {
	case AOptGroup:
		return &Ast{Kind: ANonCap, Kids: []*Ast{a}}
	case AConcat, ARep:
		c := *a
		c.Kids = nil
		for _, k := range a.Kids {
			c.Kids = append(c.Kids, shieldOptGroups(k))
		}
		return &c
	}
	return a
}

// a branch of a conditional must not contain a top-level '|'
func (a *Ast) printAtomAlt(sb *strings.Builder, o Opts, r *Rng) {
	a = shieldOptGroups(a)
	if a.Kind == AAlt {
		sb.WriteString("(?:")
		a.print(sb, o, r)
		sb.WriteByte(')')
		return
	}
	a.print(sb, o, r)
}

// printAtom prints a so that it binds as one item (for concatenation / quantification)
func (a *Ast) printAtom(sb *strings.Builder, o Opts, r *Rng, quantified bool) {
	need := a.Kind == AAlt || (quantified && (a.Kind == AConcat || a.Kind == ARep || a.Kind == AAnchor))
	if need {
		sb.WriteString("(?:")
		a.print(sb, o, r)
		sb.WriteByte(')')
		return
	}
	a.print(sb, o, r)
}

func (a *Ast) Pattern(o Opts, r *Rng) string {
	var sb strings.Builder
	if r != nil {
		a.markBare(r, true)
	}
	a.print(&sb, o, r)
	return sb.String()
}

// ---------- static facts ----------

// minLen is a lower bound on the number of characters consumed (0 for zero-width constructs)
func (a *Ast) minLen() int {
	switch a.Kind {
	case ALit, ADot, AClass:
		return 1
	case AConcat:
		n := 0
		for _, k := range a.Kids {
			n += k.minLen()
		}
		return n
	case AAlt:
		m := -1
		for _, k := range a.Kids {
			if x := k.minLen(); m < 0 || x < m {
				m = x
			}
		}
		if m < 0 {
			return 0
		}
		return m
	case ARep:
		return a.Min * a.Kids[0].minLen()
	case AGroup, ANonCap, AAtomic, AOptGroup:
		return a.Kids[0].minLen()
	case ACondRef:
		if len(a.Kids) < 2 {
			return 0
		}
		return min(a.Kids[0].minLen(), a.Kids[1].minLen())
	case ACondExpr:
		if len(a.Kids) < 3 {
			return 0
		}
		return min(a.Kids[1].minLen(), a.Kids[2].minLen())
	}
	return 0
}

func (a *Ast) walk(f func(*Ast)) {
	f(a)
	for _, k := range a.Kids {
		k.walk(f)
	}
}

func (a *Ast) depth() int {
	d := 0
	for _, k := range a.Kids {
		if x := k.depth(); x > d {
			d = x
		}
	}
	return d + 1
}

func (a *Ast) size() int {
	n := 0
	a.walk(func(*Ast) { n++ })
	return n
}

// alphabet derived from the pattern: literals, class endpoints +-1, newline, one foreign rune
func (a *Ast) alphabet(o Opts) []rune {
	seen := map[rune]bool{}
	var out []rune
	add := func(c rune) {
		if c >= 0 && !seen[c] {
			seen[c] = true
			out = append(out, c)
		}
	}
	a.walk(func(n *Ast) {
		switch n.Kind {
		case ALit:
			add(n.Ch)
			if unicode.IsLetter(n.Ch) {
				add(unicode.ToUpper(n.Ch))
				add(unicode.ToLower(n.Ch))
			}
		case AClass:
			for _, it := range n.Items {
				if it.Short != 0 {
					switch it.Short {
					case 'd', 'D':
						add('7')
					case 'w', 'W':
						add('_')
					case 's', 'S':
						add(' ')
					}
					continue
				}
				add(it.Lo)
				add(it.Hi)
				if it.Hi-it.Lo > 1 {
					add(it.Lo + 1)
				}
			}
		}
	})
	return out
}

// ---------- class semantics (independent of regexp2's CharSet) ----------

func shortIn(s byte, c rune, re2 bool) bool {
	var b bool
	switch s {
	case 'd', 'D':
		if re2 {
			b = c >= '0' && c <= '9'
		} else {
			b = unicode.Is(unicode.Nd, c)
		}
	case 'w', 'W':
		if re2 {
			b = c == '_' || (c >= '0' && c <= '9') || (c >= 'a' && c <= 'z') || (c >= 'A' && c <= 'Z')
		} else {
			b = unicode.In(c, unicode.L, unicode.Mn, unicode.Nd, unicode.Pc)
		}
	case 's', 'S':
		if re2 {
			b = c == ' ' || c == '\t' || c == '\n' || c == '\f' || c == '\r'
		} else {
			b = unicode.IsSpace(c)
		}
	}
	if s >= 'A' && s <= 'Z' {
		return !b
	}
	return b
}

// simple case variants of c (the pair upper/lower); the generators keep to letters where this is the whole fold orbit
func caseVariants(c rune) []rune {
	out := []rune{c}
	if u := unicode.ToUpper(c); u != c {
		out = append(out, u)
	}
	if l := unicode.ToLower(c); l != c {
		out = append(out, l)
	}
	return out
}

func classIn(items []ClassItem, neg bool, ci bool, re2 bool, c rune) bool {
	in := false
	for _, it := range items {
		if it.Short != 0 {
			if shortIn(it.Short, c, re2) {
				in = true
			}
			continue
		}
		if c >= it.Lo && c <= it.Hi {
			in = true
		}
		if ci {
			for _, v := range caseVariants(c) {
				if v >= it.Lo && v <= it.Hi {
					in = true
				}
			}
		}
	}
	return in != neg
}
