package main

// c04-analysis2: the compile-time analyses modelled in coq/Model/Analysis2.v -- findFirstCharClass,
// findFixedDistanceSets (both analysis depths) + findFixedDistanceString, findPrefixes (case-sensitive and
// ignore-case) + findPrefixOrdinalCaseInsensitive, findLiteralFollowingLeadingLoop, findRequiredLandmarkChain,
// getFirstCharsPrefix -- recomputed by the extracted model on the tree and the character classes exported from
// the implementation, and compared, function by function, with what the implementation's own functions return
// for the same tree (hook syntax/verif_analysis.go), including "nothing found".

import (
	"fmt"
	"sort"
	"unicode"

	"github.com/dlclark/regexp2/v2/syntax"
)

func init() {
	registerLeg("c04-analysis2", "C04", legC04Analysis2)
}

// patterns aimed at the individual analyses (each is run in both directions, analysis mode off and on)
var c04an2Shapes = []string{
	// fixed-distance sets: literals, loops, caps, alternations (thorough), fallback to the first-char class
	`ab[cd]e`, `a[bc]{3}d`, `[ab]{25}c`, `[ab]{21}cd`, `a{25}b`, `a{3,}b`, `[ab]{2,3}c`, `[^a]bc`, `[^a]{2}bc`, `[^a]{2,3}bc`, `.b`, `(?s).b`, `(?s)..b`, `[\s\S]ab`,
	`(?:ab|cd)e`, `(?:ab|cde)f`, `(?:ab|c)d|ef`, `(?:a|b)(?:c|d)e`, `(?:ab|[cd]e)f`, `(?:ab|cd|)e`, `(?:a[bc]|[^x]d)e`, `(?:ab|c\d)e`, `(?:\da|\wb)c`, `(?:ab)+c`, `(?:ab){2}c`, `(?:ab)*c`,
	`(?:a|bc)(?:d|ef)`, `(?:(?:a|b)c|de)f`, `(?:abc|ade|afg)h`, `(?:a\b|b)c`, `(?:a(?=b)|c)b`, `(?:ab|cd)(?<=b)e`, `(ab|cd)\1`, `(?>ab|cd)e`, `((?:ab|cd))e`, `(?:a|\1)(b)`,
	`abcdefghijklmnopqrstuvwxyzabcdefghijklmnopqrstuvwxyz`, `[ab]{20}[cd]{20}[ef]{20}`, `(?:[ab]{20}[cd]{20}[ef]{9}|[xy]{49})z`, `(?:[ab]{20}[cd]{20}[ef]{10}|[xy]{50})z`, `[ab]{20}[cd]{20}[ef]{8}(?:gh|ij)k`,
	`a*b`, `a*b*c`, `a?[bc]`, `(?:a|b*)c`, `\w*\d`, `[^a]*[^b]`, `[^a]|b`, `a|[^b]`, `\D|5`, `[^a]?\d`, `\p{L}|\d`, `[a-c-[b]]|d`, `d|[a-c-[b]]`, `[^a]|[^b]`,
	`[^\x{10000}]`, `a[^\x{10000}]`, `[^\x{ffff}]b`, `[^\x{10ffff}]`, `[^\x00]a`, `[^\x01]a`, `[\x00-\x60b-\x{10FFFF}]a`,
	`[xy]\x{D800}a`, `[xy]ab`, `[xy]a[cd]b`, `[xy]ab[cd]efg`, `[xy]ab.cde`, `[xy]é😀z`, `[ab][cd]`, `[a-c][d-z]`, `[^ab][^c]`, `[a-z-[aeiou]]x`, `[ae]\dx`,
	// prefixes
	`(?:ab|cd)\w`, `(?:abc|abd|xyz)\d`, `(?:ab|cd)(?:ef|gh)`, `[ab]c[de]`, `[ab]{3}c`, `[ab]{2,}c`, `[abcde]{2}x`, `[a-q]x`, `(?:ab|cd){2}e`, `(?:ab){9}`, `a{9}b`, `a{3}[bc]`, `(?:a|)b`, `(?:ab|)c`,
	`(?i)ab`, `(?i)1a`, `(?i)12ab`, `(?i)(?:12|34)`, `(?i)(?:ab|cd)`, `(?i)a1`, `(?i)[ab]c`, `(?i)a{3}b`, `(?i)1{3}a`, `(?i)\d\da`, `(?i)--ab`, `(?i)(?:1a|2b)`, `[Aa]b`, `[Aa][Bb]c`, `[Aa]{2}[Bb]`,
	`(?:€a|₭b)c`, `(?:é|è)x`, `(?:éa|èb)`, `(?:e\x{D800}|t\x{D801})x`, `abcdefghi|jk`, `(?:abcdefgh|ij)kl`, `(?:a|b|c|d|e|f|g|h|i|j|k|l|m|n|o|p|q)x`, `(?:aa|bb|cc|dd|ee|ff|gg|hh|ii|jj|kk|ll|mm|nn|oo|pp|qq)x`,
	`[ab][cd][ef][gh]x`, `[ab][cd][ef][gh][ij]x`, `[abc]{3}x`, `(?:[ab]c|d)e`, `\bab|\bcd`, `(?=a)ab|cd`, `^ab|^cd`, `(?>ab|cd)`, `(ab|cd)x`, `(?:ab|cd)+x`, `(?:ab|cd)?x`, `(?:ab|(?i)cd)x`, `(?:a\d|bc)x`,
	// literal after a leading loop
	`\w*@x`, `[^,]*,`, `[^,]*,,`, `[ab]*c+d`, `[ab]*cd`, `[ab]*[cd]`, `[ab]*[cd]+e`, `[ab]*[cd]*e`, `[ab]*[c-j]`, `[ab]*[^c]`, `[ab]*a`, `[ab]*(c)d`, `([ab]*)cd`, `(?>[ab]*)cd`, `[ab]*?cd`, `[ab]+cd`, `[ab]{2,}cd`, `[ab]{0,5}cd`,
	`[^ÃÂ]*(?:éx|èy)`, `[^ÃÂ]*(?:(é)|(è))`, `[^ÃÂ]*é`, `[^ÃÂ]*éz`, `[^éÂ]*éz`, `[^€]*(?:€a|₭b)`, `[^ab]*(?:😀a|😁b)`, `[ab]*(?i)cd`, `[ab]*(?i)1c`, `[ab]*[Cc][Dd]`, `[ab]*[Cc]{2}d`, `[cd]*[Cc][Dd]`, `[ab]*12(?i)c`, `[12]*(?i)-3`,
	`[ab]*(?:[Cc][Dd]){2}`, `[ab]*(?:[Cc]1){2,}`, `[cd]*(?:[Cc][Dd]){2}`, `[12]*(?:-[Cc]){2}`, `[-1]*(?:-[Cc]){2}`, `[ab]*(?:(?:[Cc][Dd]){2})`, `[ab]*((?:[Cc]\b[Dd]){2})`, "[\u0100-\u0200\u0300-\u0400]*\\x{D800}", "[\u0100-\u0200\u0300-\u0400]*\\x{D800}z", "[\u0100-\u0200\u0300-\u0400]*\ufffdz", "[\u0100-\u0200\u0300-\u0400]*z\ufffd", `[ab]*(?:cd|ce)`, `[ab]*(?:c|d)e`, `[ab]*\bcd`, `[ab]*(?=c)cd`, `[ab]*(?:(?:cd))e`, `[ab]*()cd`, `\s*=`, `\s*==`, `[a-z]*\d`, `[a-z]*[0-4]`, `[a-z]*[0-5]`, `\d*[a-e]x`,
	// landmark chains
	`\w+@\w+\.com`, `[\w-]+\s*=\s*\d+`, `[a-z]+ = [0-9]+;`, `[ac]*[ab]{1,2}a`, `a*[ab]{1,2}[a-]`, `[ac]+[ab]{1,3}b[ab]{1,2}a`, `[a-z]+(?:@|\d+)[a-z]+(?:\.|,)[a-z]+`, `\w+(?:-|\s+)\w+(?:=|\d)\w+`,
	`[a-z]+(?:x|[0-9]{2})[a-z]+(?:;|y+)z`, `[ae]*(?:\s*x| )b[cd]`, `[xy]*(?:abc|b)c(d)`, `[xy]*(?:[a ]{1,3}\s+|q)b(d)`, `[xy]*\bab(c)`, `[xy]*^a\s+b(c)`, `[xy]*a\s*b\s*c`, `[xy]*(?:\s*a\s*|b)c(d)e`, `[xy]*\w(a)(b)`,
	`[xy]*a(b)(c)`, `[xy]*[ab]{2,4}(c)(d)`, `[xy]*[^a](c)(d)`, `[xy]*[a-z](c)(d)`, `[xy]*[a-h](c)(d)`, `[xy]*[a-i](c)(d)`, `[xy]+a(b)(c)`, `[xy]{2,}a(b)(c)`, `[xy]{0,9}a(b)(c)`, `(?:[xy]*)a(b)(c)`, `([xy]*)a(b)(c)`, `x*a(b)(c)`,
	`(?s)[xy]*\s+a\s+(b)(c)`, `[xy]*(?:a|)(b)(c)`, `[xy]*(?:a|b*)(c)(d)`, `[xy]*\d(a)(b)`, `(?:[xy]*a(b)(c))`, `[xy]*a(b)(c)|z`,
	// legacy first chars
	`a|b`, `ab|cd`, `a*b`, `(?:a*|b)c`, `(?:a|b)*c`, `a?b?c`, `(a)?\1b`, `\1(a)`, `(?(1)a|b)(c)`, `(?(?=a)ab|cd)`, `(?(a)b)`, `(?=a)b`, `(?!a)\w`, `\bab`, `^a`, `a$`, `$a`, `[^a]b`, `[^a]*b`, `\d|\D`, `\w|\W`,
	`[a-c-[b]]d`, `[a-c-[b]]|d`, `\p{Lu}|a`, `\P{Lu}|\p{Lu}`, `(?i)a`, `(?i)é|a`, `(?i)[a-c]|x`, `()`, `(?:)`, `a{0}b`, `(?:ab){0}c`, `(?:a|b){0,2}c`, `(?>a*)b`, `.`, `(?s).`, `.*a`, `(?s).*a`,
}

// set ids as exportNode interns them: content hash, depth first
func c04an2Sets(n *syntax.RegexNode, ids map[string]int, out *[]*syntax.CharSet) {
	if n.Set != nil && (n.T == ntSet || n.T == ntSetloop || n.T == ntSetlazy || n.T == 45) {
		key := setKey(n.Set)
		if _, ok := ids[key]; !ok {
			ids[key] = len(*out)
			*out = append(*out, n.Set)
		}
	}
	for _, k := range n.Children {
		c04an2Sets(k, ids, out)
	}
}

func c04an2Lits(n *syntax.RegexNode, out []rune) []rune {
	out = append(out, n.Ch)
	out = append(out, n.Str...)
	for _, k := range n.Children {
		out = c04an2Lits(k, out)
	}
	return out
}

// the class without its ASCII bitmaps (Copy() drops them; the model output strips them)
func encClsNB(cs *syntax.CharSet, used map[string]bool) []int64 {
	ranges, cats, sub, negate, anything, _, _ := syntax.VerifCharSetFields(cs)
	fl := b2i(negate) + 2*b2i(anything)
	if sub != nil {
		fl += 4
	}
	out := []int64{fl, int64(len(ranges))}
	for _, r := range ranges {
		out = append(out, int64(r.First), int64(r.Last))
	}
	out = append(out, int64(len(cats)))
	for _, c := range cats {
		used[c.Cat] = true
		out = append(out, b2i(c.Negate), c16CatID(c.Cat))
	}
	if sub != nil {
		out = append(out, encClsNB(sub, used)...)
	}
	return out
}

func c04an2ClsRunes(cs *syntax.CharSet, out []rune) []rune {
	ranges, _, sub, _, _, _, _ := syntax.VerifCharSetFields(cs)
	for _, r := range ranges {
		for d := rune(-1); d <= 1; d++ {
			for _, e := range []rune{r.First + d, r.Last + d} {
				if e >= 0 && e <= 0x10ffff {
					out = append(out, e)
				}
			}
		}
		if len(ranges) <= 130 {
			for x := r.First; x <= r.Last && x-r.First <= 130; x++ {
				out = append(out, x)
			}
		}
	}
	if sub != nil {
		out = c04an2ClsRunes(sub, out)
	}
	return out
}

func encOptCls(cs *syntax.CharSet, used map[string]bool) []int64 {
	if cs == nil {
		return []int64{0}
	}
	return append([]int64{1}, encClsNB(cs, used)...)
}

func legC04Analysis2(c *Ctx) {
	c.Rule("patterns: shapes aimed at each analysis (fixed-distance sets incl. thorough alternations and the 50-result cap, first-char class, multi-prefixes, literal after loop incl. non-ASCII literals, landmark chains, legacy first chars) and the FindMode shapes x {LTR,RTL} x {code-gen analysis off,on}, random ASTs over the full generator syntax, harvested test patterns; for each, syntax.Parse + syntax.Write, the post-rewrite tree and the CharSet structures of its set nodes are exported and the extracted Analysis2 model must reproduce exactly what the implementation's own functions return on the root (hook syntax/verif_analysis.go): findFirstCharClass (class structure), findFixedDistanceSets for thorough=false and true (set structure, Chars, Negated, Range, Distance; compared sorted by distance) and findFixedDistanceString on them, findPrefixes for ignoreCase=false and true (byte strings, in order) and findPrefixOrdinalCaseInsensitive, findLiteralFollowingLeadingLoop, findRequiredLandmarkChain, getFirstCharsPrefix; Unicode oracles (category membership, ToLower, participatesInCaseConversion) travel with the case and the model is evaluated with both defaults for questions outside the tables; non-trivial = the function returns something (distinct by pattern,options,analysis mode,function)")
	c16Setup()
	var pats []patCase
	for _, s := range c04an2Shapes {
		for _, rtl := range []bool{false, true} {
			for _, cg := range []bool{false, true} {
				pats = append(pats, patCase{pat: s, o: Opts{RTL: rtl}, cg: cg})
			}
		}
		pats = append(pats, patCase{pat: s, o: Opts{ECMA: true}}, patCase{pat: s, o: Opts{RE2: true}, cg: true}, patCase{pat: s, o: Opts{I: true}, cg: true})
	}
	pats = append(pats, shapePatterns(c.Rng)...)
	for _, s := range c04Shapes {
		pats = append(pats, patCase{pat: s, o: Opts{}, cg: true}, patCase{pat: s, o: Opts{RTL: true}})
	}
	pats = append(pats, genPatterns(c.Rng, c.N(2500, 60000), true)...)
	for _, h := range harvestedPatterns() {
		pats = append(pats, patCase{pat: h, o: Opts{}, cg: true}, patCase{pat: h, o: Opts{RTL: true}})
	}
	seen := map[string]int{}
	for _, p := range pats {
		var tree *syntax.RegexTree
		var code *syntax.Code
		var err error
		desc := fmt.Sprintf("pattern %q opts=%s cg=%v", p.pat, p.o, p.cg)
		func() {
			defer func() {
				if e := recover(); e != nil {
					c.Add(&Case{Desc: desc, Direct: fmt.Sprintf("compiling panicked: %v", e), Class: "panic"})
					tree = nil
				}
			}()
			tree, err = syntax.Parse(p.pat, syntax.ParseOptions{RegexOptions: syntax.RegexOptions(p.o.bits()), CodeGen: p.cg})
			if err != nil {
				tree = nil
				return
			}
			code, err = syntax.Write(tree)
			if err != nil {
				tree = nil
			}
		}()
		if tree == nil || code == nil {
			c.Hist("not-compiled")
			continue
		}
		root := tree.Root
		tw := ExportTree(tree, code)
		ids := map[string]int{}
		var sets []*syntax.CharSet
		c04an2Sets(root, ids, &sets)
		setID := func(cs *syntax.CharSet) int64 {
			if cs == nil {
				return -1
			}
			id, ok := ids[setKey(cs)]
			if !ok {
				return -2
			}
			return int64(id)
		}
		// ---- implementation side (each call under recover: a panic is a finding of its own)
		type implRes struct {
			out []int64
			nt  bool
		}
		used := map[string]bool{}
		runes := c04an2Lits(root, nil)
		for _, s := range sets {
			runes = c04an2ClsRunes(s, runes)
		}
		guard := func(name string, f func() implRes) (r implRes, ok bool) {
			defer func() {
				if e := recover(); e != nil {
					c.Add(&Case{Desc: desc + " " + name, Direct: fmt.Sprintf("%s panicked: %v", name, e), Class: "panic"})
					ok = false
				}
			}()
			return f(), true
		}
		var legs []struct {
			name  string
			leg   int
			extra []int64
			res   implRes
		}
		add := func(name string, leg int, extra []int64, f func() implRes) {
			if r, ok := guard(name, f); ok {
				legs = append(legs, struct {
					name  string
					leg   int
					extra []int64
					res   implRes
				}{name, leg, extra, r})
			}
		}
		add("findFirstCharClass", 402, nil, func() implRes {
			cs := syntax.VerifFindFirstCharClass(root)
			if cs != nil {
				runes = c04an2ClsRunes(cs, runes)
			}
			// + the hypotheses lits_ok (tree) and cls_good_b (exported classes) of the C04 theorems, expected of every real tree
			return implRes{append(encOptCls(cs, used), 1, 1), cs != nil}
		})
		for _, th := range []bool{false, true} {
			th := th
			add(fmt.Sprintf("findFixedDistanceSets(thorough=%v)", th), 403, []int64{b2i(th)}, func() implRes {
				fs := syntax.VerifFindFixedDistanceSets(root, th)
				if len(fs) >= 50 {
					// the cap was reached: which entries of an alternation's map survive depends on Go's map order
					seen["fds-cap"]++
					return implRes{nil, false}
				}
				sorted := append([]syntax.FixedDistanceSet(nil), fs...)
				sort.SliceStable(sorted, func(i, j int) bool { return sorted[i].Distance < sorted[j].Distance })
				out := []int64{int64(len(sorted))}
				for _, s := range sorted {
					runes = c04an2ClsRunes(s.Set, runes)
					out = append(out, encClsNB(s.Set, used)...)
					out = append(out, encRunes(s.Chars)...)
					out = append(out, b2i(s.Negated))
					if s.Range != nil {
						out = append(out, 1, int64(s.Range.First), int64(s.Range.Last))
					} else {
						out = append(out, 0, 0, 0)
					}
					out = append(out, int64(s.Distance))
				}
				if lit := syntax.VerifFindFixedDistanceString(fs); lit != nil {
					out = append(out, 1)
					out = append(out, encRunes([]rune(lit.S))...)
					out = append(out, int64(lit.Distance))
					seen["fds-string"]++
				} else {
					out = append(out, 0)
				}
				if len(fs) > 0 {
					seen[fmt.Sprintf("fds-%v", th)]++
				}
				return implRes{out, len(fs) > 0}
			})
		}
		add("findPrefixes", 404, nil, func() implRes {
			var out []int64
			nt := false
			for _, ic := range []bool{false, true} {
				ps := syntax.VerifFindPrefixes(root, ic)
				if ps == nil {
					out = append(out, 0)
					continue
				}
				nt = true
				seen[fmt.Sprintf("prefixes-%v", ic)]++
				out = append(out, 1, int64(len(ps)))
				for _, s := range ps {
					out = append(out, int64(len(s)))
					for _, b := range []byte(s) {
						out = append(out, int64(b))
					}
				}
			}
			cp := syntax.VerifFindPrefixOrdinalCaseInsensitive(root)
			out = append(out, encRunes([]rune(cp))...)
			if cp != "" {
				nt = true
				seen["ci-prefix"]++
			}
			return implRes{out, nt}
		})
		add("findLiteralFollowingLeadingLoop+findRequiredLandmarkChain", 405, nil, func() implRes {
			out := []int64{0}
			nt := false
			if l := syntax.VerifFindLiteralFollowingLeadingLoop(root); l == nil {
				out = append(out, 0)
			} else {
				nt = true
				out = append(out, 1, setID(l.LoopNode.Set))
				switch {
				case l.String != "":
					out = append(out, 1, int64(len(l.String)))
					for _, b := range []byte(l.String) {
						out = append(out, int64(b))
					}
					out = append(out, b2i(l.StringIgnoreCase))
					seen["lal-string"]++
					if l.StringIgnoreCase {
						seen["lal-string-ci"]++
					}
				case len(l.Chars) > 0:
					out = append(out, 2)
					out = append(out, encRunes(l.Chars)...)
					seen["lal-chars"]++
				default:
					out = append(out, 0, int64(l.Char))
					seen["lal-char"]++
				}
			}
			out = append(out, 1) // hypothesis of the C04 theorem: a published case-sensitive string is valid UTF-8
			if ch := syntax.VerifFindRequiredLandmarkChain(root); ch == nil {
				out = append(out, 0)
			} else {
				nt = true
				seen["landmark"]++
				oz := func(cs *syntax.CharSet) int64 { return setID(cs) + 1 }
				out = append(out, 1, setID(ch.LeadingLoopSet), int64(len(ch.Landmarks)))
				for _, lm := range ch.Landmarks {
					out = append(out, int64(len(lm.Alternatives)))
					if len(lm.Alternatives) > 1 {
						seen["landmark-alt"]++
					}
					for _, a := range lm.Alternatives {
						out = append(out, encRunes(a.Literal)...)
						out = append(out, oz(a.Set), oz(a.LeadingWhitespaceSet), oz(a.TrailingWhitespaceSet), int64(a.MinRepeat), int64(a.MaxRepeat),
							b2i(a.RequireWhitespaceBefore), b2i(a.RequireWhitespaceAfter))
						if a.LeadingWhitespaceSet != nil || a.TrailingWhitespaceSet != nil {
							seen["landmark-ws"]++
						}
					}
				}
			}
			return implRes{out, nt}
		})
		add("getFirstCharsPrefix", 406, nil, func() implRes {
			fc := syntax.VerifGetFirstCharsPrefix(tree)
			if fc == nil {
				return implRes{[]int64{0, 0}, false}
			}
			seen["fc"]++
			runes = c04an2ClsRunes(&fc.PrefixSet, runes)
			out := append([]int64{0, 1}, encClsNB(&fc.PrefixSet, used)...)
			return implRes{append(out, b2i(fc.CaseInsensitive)), true}
		})
		// ---- common model input: oracles, classes, tree
		var setEnc []int64
		setEnc = append(setEnc, int64(len(sets)))
		for _, s := range sets {
			setEnc = append(setEnc, encClsNB(s, used)...) // without ASCII bitmaps: CharIn = charInSlow is C16's tie
		}
		var all []rune
		for _, r := range dedupRunes(runes) {
			if r < 0 || r > unicode.MaxRune {
				continue
			}
			all = append(all, r)
			if r < 128 {
				all = append(all, r|0x20, r&^0x20)
			}
			if l := unicode.ToLower(r); l != r {
				all = append(all, l)
			}
		}
		all = dedupRunes(all)
		in := c16EncOracle(sortedKeys(used), all, all)
		in = append(in, int64(len(all)))
		for _, r := range all {
			in = append(in, int64(r), b2i(syntax.VerifParticipatesInCaseConversion(r)))
		}
		in = append(in, setEnc...)
		in = append(in, tw.Words...)
		for _, l := range legs {
			if l.res.out == nil {
				continue
			}
			min := append(append([]int64{}, in...), l.extra...)
			c.Add(&Case{Desc: desc + " " + l.name, ModelLeg: l.leg, ModelIn: min, ImplOut: l.res.out, Nontrivial: l.res.nt, Key: desc + " " + l.name, Class: l.name})
		}
	}
	for _, k := range []string{"fds-false", "fds-true", "fds-string", "fds-cap", "prefixes-false", "prefixes-true", "ci-prefix", "lal-string", "lal-string-ci", "lal-chars", "lal-char",
		"landmark", "landmark-alt", "landmark-ws", "fc"} {
		c.Gate("analysis2 case "+k+" exercised", seen[k] > 0)
	}
	for k, v := range seen {
		c.res.Histogram["seen:"+k] = v
	}
}
