package main

// C18 (lead's addition): hand-written pairs of patterns that must be equivalent because an inline
// option scope ends at its group's closing parenthesis — in particular ExplicitCapture / x-mode scopes
// that contain constructs with special parenthesis handling (conditionals, comments).

import (
	"fmt"
	"time"

	"github.com/dlclark/regexp2/v2"
)

func init() {
	registerLeg("c18-equiv", "C18", legC18Equiv)
}

var c18Pairs = [][2]string{
	{`(?n:(?(a)ab|c))(d)`, `(?:(?(a)ab|c))(d)`},
	{`(?:(?n)(?(a)ab|c))(d)`, `(?:(?(a)ab|c))(d)`},
	{`(?n:(a)(b))(c)`, `(?:(?:a)(?:b))(c)`},
	{`(?n:(a)(b)(?<x>c))`, `(?:(?:a)(?:b)(?<x>c))`},
	{`(?n:(a)(b))(c)(?<x>d)`, `(?:(?:a)(?:b))(c)(?<x>d)`},
	{`((?n)(a))(b)`, `((?:a))(b)`},
	{`(?x:(?(a)ab|c) # (` + "\n" + ` d)`, `(?:(?(a)ab|c)d)`},
	{`(?x: a ( b ) # ( c` + "\n" + `)(d)`, `(?:a(b))(d)`},
	{`(?i:(?(a)ab|c))(d)`, `(?:(?([aA])[aA][bB]|[cC]))(d)`},
	{`(?n:(?(?=a)(a)b|c))(d)`, `(?:(?(?=a)(?:a)b|c))(d)`},
	{`(?-n:(a))(b)`, `(a)(b)`},
	{`(?s:a.)(.)`, `(?:a[\s\S])([^\n])`},
	{`(?m:^a)$`, `(?:(?:\A|(?<=\n))a)(?=\n?\z)`},
}

func legC18Equiv(c *Ctx) {
	c.Rule("hand-written pairs (pattern with an inline option scope, pattern with the scope's effect written out): equal group numbers and equal match + captures on every string up to length 4 over {a,b,c,d,A,newline}; every pair x {no option, the pair compiled with ExplicitCapture when that does not change its meaning}; non-trivial = some input matches (distinct by pair,input)")
	var inputs [][]rune
	allStrings([]rune{'a', 'b', 'c', 'd', 'A', '\n'}, c.N(4, 5), func(s []rune) { inputs = append(inputs, s) })
	for _, pr := range c18Pairs {
		a, err1 := regexp2.Compile(pr[0])
		b, err2 := regexp2.Compile(pr[1])
		desc := fmt.Sprintf("pair %q == %q", pr[0], pr[1])
		if err1 != nil || err2 != nil {
			c.Add(&Case{Desc: desc, Direct: fmt.Sprintf("does not compile: %v / %v", err1, err2)})
			continue
		}
		a.MatchTimeout, b.MatchTimeout = time.Second, time.Second
		if fmt.Sprint(a.GetGroupNumbers()) != fmt.Sprint(b.GetGroupNumbers()) || fmt.Sprint(a.GetGroupNames()) != fmt.Sprint(b.GetGroupNames()) {
			c.Add(&Case{Desc: desc, Direct: fmt.Sprintf("group tables differ: %v %v vs %v %v", a.GetGroupNumbers(), a.GetGroupNames(), b.GetGroupNumbers(), b.GetGroupNames())})
			continue
		}
		for _, in := range inputs {
			ma, e1 := a.FindRunesMatch(in)
			mb, e2 := b.FindRunesMatch(in)
			if e1 != nil || e2 != nil {
				continue
			}
			cs := &Case{Desc: fmt.Sprintf("%s on %+q", desc, string(in)), Nontrivial: ma != nil, Class: "pair"}
			cs.Key = cs.Desc
			if !canonEq(canon(ma), canon(mb)) {
				cs.Direct = fmt.Sprintf("results differ: %s vs %s", canon(ma), canon(mb))
			}
			c.Add(cs)
		}
	}
}
