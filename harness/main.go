// Command harness is the implementation side of the correspondence check (DESIGN §2.3):
// it generates cases, runs them on dlclark/regexp2 (built from /repo's working tree with
// -tags verif), evaluates the same cases on the extracted Coq model and reports differences.
package main

import (
	"encoding/json"
	"flag"
	"fmt"
	"os"
	"strings"
	"sync"
)

func main() {
	legs := flag.String("legs", "", "comma separated leg names (or 'list')")
	tier := flag.String("tier", "quick", "quick|thorough")
	seed := flag.Uint64("seed", 1, "seed")
	model := flag.String("model", "/verif/build/model", "extracted model binary")
	out := flag.String("out", "/verif", "output dir for replay files")
	known := flag.String("known", "/verif/known_findings.txt", "known findings file")
	result := flag.String("result", "", "result json path")
	par := flag.Int("par", 8, "legs run in parallel")
	flag.Parse()
	if *legs == "list" {
		fmt.Println(strings.Join(legNames(), "\n"))
		return
	}
	names := strings.Split(*legs, ",")
	results := make([]LegResult, len(names))
	var wg sync.WaitGroup
	sem := make(chan struct{}, *par)
	for i, n := range names {
		wg.Add(1)
		go func(i int, n string) {
			defer wg.Done()
			sem <- struct{}{}
			defer func() { <-sem }()
			results[i] = runLeg(n, *tier, *seed, *model, *out, *known)
		}(i, n)
	}
	wg.Wait()
	b, _ := json.MarshalIndent(results, "", " ")
	if *result != "" {
		os.WriteFile(*result, b, 0o644)
	} else {
		os.Stdout.Write(b)
	}
}
