package main

// C07 — successive matches are ordered, disjoint and terminate.
//
// Leg c07-iter: patterns rich in nullable / zero-width shapes (fixed corpus, a small random
// grammar, and every pattern literal harvested from /repo/*_test.go) x inputs x both directions
// x n in {-1,0,1,2,3}.
//
// DIRECT observables on the real FindNextMatch sequence (capped at len+2 steps):
//   strictly advancing, non-overlapping, no repeated empty match, at most len+1 matches,
//   each next match = an independent FindRunesMatchStartingAt from the previous end (one further
//   after an empty match) for \G-free patterns, FindAllRunesIndex / FindAllStringIndex = the
//   filtered iteration truncated to n (nil when empty), string iteration = rune iteration.
// MODEL: the per-position anchored-attempt table of the implementation (\G(?:P), or (?:P)\G when
//   right-to-left, via FindRunesMatchStartingAt; \G-free patterns) is fed to Model/Iter.v, whose
//   iteration and find_all_runes_index must reproduce the implementation's.

import (
	"fmt"
	"go/ast"
	"go/parser"
	"go/token"
	"path/filepath"
	"sort"
	"strconv"
	"strings"
	"time"
	"unicode/utf8"

	"github.com/dlclark/regexp2/v2"
	"github.com/dlclark/regexp2/v2/compat"
)

func init() {
	registerLeg("c07-iter", "C07", legC07Iter)
}

type c07Span struct{ idx, ln int }

// advancing edge of a match: where the next search starts
func (s c07Span) textpos(rtl bool) int {
	if rtl {
		return s.idx
	}
	return s.idx + s.ln
}

// edge where the attempt began
func (s c07Span) start(rtl bool) int {
	if rtl {
		return s.idx + s.ln
	}
	return s.idx
}

var c07Fixed = []string{
	`a*`, `\b`, `(?=a)`, `(?<=a)`, `\G`, `^`, `$`, `(a|)`, `(?<!a)`, `a*?`, `(?m)^`, `(?m)$`, `\B`, `(?:a|b)*`,
	`(a*)*`, `(?<=a*)`, `\Ga`, `\G(?:a|)`, ``, `a?`, `(?!a)`, `b*|a`, `(?<=b)|a`, `\G\b`, `(?<=\Ga)`, `a|\b`,
	`(?<=a)(?=b)`, `\z`, `\A`, `\Z`, `(|a)+`, `(a|b|)`, `[ab]*?b?`, `(?<!^)`, `(?=.)`, `(?<=.)`, `.??`, `a{0,2}`,
		`(?i)(\w)\1`, `(?<=\1(a))x?`, `(?i)(a)\1|b`, `(\w)(?<=\1)`, `(?<=(a))b*`, `(?:\b|a)`, `\Ga*`, `(?:\G|b)a*`, `é*`, `\d*`, `(?<=\b)a*`, `(?i)A*`, `(?s).*?`, `(?=a*b)`, `x*`,
}

// the witnesses of the two defects fixed in eb87fbc stay in the deterministic corpus
type c07Witness struct {
	pat, in string
	rtl     bool
}

var c07Witnesses = []c07Witness{
	{`a*`, "baaab", true}, {`a*`, "baaab", false}, {`a`, "b", false}, {`a`, "b", true}, {`a*`, "", true}, {`a*`, "", false},
	{`\b`, "ab c", true}, {`(?<=a)`, "aab", true}, {`a|`, "ba", true},
	// an optional group that takes part in one match and not in the next: the capture state a scan starts from must be
	// empty whichever call runs it (find-all reuses the runner's Match)
	{`(a)?b\1`, "abaxba", false}, {`(?:(a)|b)(?(1)c|d)`, "ac-bd-ac-bc", false}, {`\1b(a)?`, "abxaba", true}, {`(?:(a)|(b))(?(2)x|y)`, "ay-bx-ay-by-bx", false}, {`(?<o>a)?(?<-o>b)?c`, "abc-c-bc-ac", false},
	// groups kept alive only by a back-reference carrying a modifier bit (IgnoreCase, right-to-left, inside a lookbehind):
	// the find-all calls run the capture-pruned program and must still agree with the FindNextMatch chain
	// sparse explicit numbers (group number != slot) under a back-reference or a conditional: the capture-pruned program
	// must keep the group that is referred to, whichever table (number or slot) it is looked up in
	{`(?<2>a)(?<3>b)\2`, "aba abb aba", false}, {`(?<2>\w)(?<3>\d)?\2`, "aa b1b cc", false}, {`(?<5>a)(b)\5`, "abaaba", false}, {`(?<7>a)?(?(7)b|c)`, "ab c ac", false},
	{`(?<3>a)(?<x>b)\3\k<x>`, "abab abba", false}, {`\2(?<3>b)(?<2>a)`, "aba bba aba", true}, {`(?<2>a)(?<4>b)(?<6>c)\4`, "abcb abca", false}, {`(?<10>a)(?<20>b)\20\10`, "abba abab", false},
	{`(?i)(\w)\1`, "aAbBcd", false}, {`(?<=\1(a))x`, "aaxax", false}, {`\1(a)`, "baab", true}, {`(?i)(a)\1`, "aaaa", false}, {`(?i)(a)\1`, "aAAa", true}, {`(a)(?<=\1)b?`, "aab", false},
}

func c07Harvest() []string {
	seen := map[string]bool{}
	var out []string
	files, _ := filepath.Glob(repoPath()+"/*_test.go")
	more, _ := filepath.Glob(repoPath()+"/syntax/*_test.go")
	files = append(files, more...)
	sort.Strings(files)
	fset := token.NewFileSet()
	for _, f := range files {
		af, err := parser.ParseFile(fset, f, nil, 0)
		if err != nil {
			continue
		}
		ast.Inspect(af, func(n ast.Node) bool {
			call, ok := n.(*ast.CallExpr)
			if !ok || len(call.Args) == 0 {
				return true
			}
			name := ""
			switch fn := call.Fun.(type) {
			case *ast.SelectorExpr:
				name = fn.Sel.Name
			case *ast.Ident:
				name = fn.Name
			}
			if name != "Compile" && name != "MustCompile" {
				return true
			}
			lit, ok := call.Args[0].(*ast.BasicLit)
			if !ok || lit.Kind != token.STRING {
				return true
			}
			s, err := strconv.Unquote(lit.Value)
			if err != nil || len(s) > 120 || !utf8.ValidString(s) {
				return true
			}
			if !seen[s] {
				seen[s] = true
				out = append(out, s)
			}
			return true
		})
	}
	return out
}

// ---- small random grammar biased to nullable / zero-width shapes ----

func c07Atom(r *Rng, allowG bool) string {
	k := r.Intn(24)
	switch {
	case k < 5:
		return "a"
	case k < 7:
		return "b"
	case k == 7:
		return "."
	case k == 8:
		return "[ab]"
	case k == 9:
		return "[^a]"
	case k == 10:
		return `\b`
	case k == 11:
		return `\B`
	case k == 12:
		return "^"
	case k == 13:
		return "$"
	case k == 14:
		if allowG {
			return `\G`
		}
		return ""
	case k == 15:
		return "(?=a)"
	case k == 16:
		return "(?!a)"
	case k == 17:
		return "(?<=a)"
	case k == 18:
		return "(?<!b)"
	case k == 19:
		return ""
	case k == 20:
		return `\d`
	case k == 21:
		return "é"
	case k == 22:
		return `\w`
	default:
		return "a"
	}
}

func c07Gen(r *Rng, depth int, allowG bool) string {
	if depth <= 0 {
		return c07Atom(r, allowG)
	}
	switch r.Intn(10) {
	case 0, 1:
		return c07Atom(r, allowG)
	case 2, 3:
		n := 1 + r.Intn(3)
		var sb strings.Builder
		for i := 0; i < n; i++ {
			sb.WriteString(c07Gen(r, depth-1, allowG))
		}
		return sb.String()
	case 4:
		n := 2 + r.Intn(2)
		parts := make([]string, n)
		for i := range parts {
			if r.Chance(25) {
				parts[i] = ""
			} else {
				parts[i] = c07Gen(r, depth-1, allowG)
			}
		}
		return "(?:" + strings.Join(parts, "|") + ")"
	case 5, 6:
		q := Pick(r, []string{"*", "+", "?", "*?", "+?", "??", "{0,2}", "{1,2}", "*"})
		return "(?:" + c07Gen(r, depth-1, allowG) + ")" + q
	case 7:
		return "(" + c07Gen(r, depth-1, allowG) + ")"
	case 8:
		la := Pick(r, []string{"(?=", "(?!", "(?<=", "(?<!"})
		return la + c07Gen(r, depth-1, false) + ")"
	default:
		return c07Gen(r, depth-1, allowG) + "|" + c07Gen(r, depth-1, allowG)
	}
}

func c07Input(r *Rng, pat string) string {
	alpha := []rune("aabbab \n1éc")
	if r.Chance(30) {
		// letters of the pattern itself
		for _, ch := range pat {
			if ch > ' ' && ch < 0x7f && !strings.ContainsRune(`\.+*?()|[]{}^$#`, ch) {
				alpha = append(alpha, ch)
			}
		}
	}
	if r.Chance(5) {
		alpha = append(alpha, 0x1F600)
	}
	n := r.Intn(8)
	out := make([]rune, n)
	for i := range out {
		out[i] = Pick(r, alpha)
	}
	return string(out)
}

type c07Re struct {
	re   *regexp2.Regexp
	anc  *regexp2.Regexp // anchored-attempt wrapper, nil when not available
	pat  string
	rtl  bool
	opts regexp2.RegexOptions
	ancG map[int]*regexp2.Regexp // \G patterns: attempt anchored at rune p by a lookbehind, \G origin free
}

// for a pattern that tests \G: a wrapper whose only possible match start is rune p, while \G still
// refers to the search's textstart, so FindRunesMatchStartingAt(ts) yields attempt(ts, p)
func (c *c07Re) anchoredAt(p int) *regexp2.Regexp {
	if c.ancG == nil {
		c.ancG = map[int]*regexp2.Regexp{}
	}
	if re, ok := c.ancG[p]; ok {
		return re
	}
	w := fmt.Sprintf(`(?<=\A(?s:.{%d}))(?:%s)`, p, c.pat)
	if c.rtl {
		w = fmt.Sprintf(`(?:%s)(?<=\A(?s:.{%d}))`, c.pat, p)
	}
	re, err := regexp2.Compile(w, c.opts)
	if err != nil {
		re = nil
	} else {
		re.MatchTimeout = 2 * time.Second
	}
	c.ancG[p] = re
	return re
}

func c07Compile(pat string, rtl bool, extra regexp2.RegexOptions) (out *c07Re, err error) {
	defer func() {
		if p := recover(); p != nil {
			err = fmt.Errorf("panic in Compile: %v", p)
		}
	}()
	opts := extra
	if rtl {
		opts |= regexp2.RightToLeft
	}
	re, err := regexp2.Compile(pat, opts)
	if err != nil {
		return nil, err
	}
	re.MatchTimeout = 2 * time.Second
	out = &c07Re{re: re, pat: pat, rtl: rtl, opts: opts}
	if !strings.Contains(pat, `\G`) {
		w := `\G(?:` + pat + `)`
		if rtl {
			w = `(?:` + pat + `)\G`
		}
		if anc, err := regexp2.Compile(w, opts); err == nil {
			anc.MatchTimeout = 2 * time.Second
			out.anc = anc
		}
	}
	return out, nil
}

// the real FindNextMatch sequence, capped
func c07Sequence(re *regexp2.Regexp, first func() (*regexp2.Match, error), cap int) (seq []c07Span, over bool, err error) {
	defer func() {
		if p := recover(); p != nil {
			err = fmt.Errorf("panic: %v", p)
		}
	}()
	m, err := first()
	for m != nil && err == nil {
		if len(seq) >= cap {
			return seq, true, nil
		}
		seq = append(seq, c07Span{m.RuneIndex, m.RuneLength})
		m, err = re.FindNextMatch(m)
	}
	return seq, false, err
}

func c07Filtered(seq []c07Span, rtl bool, n int) [][]int {
	var out [][]int
	for i, s := range seq {
		if n >= 0 && len(out) >= n {
			break
		}
		if i > 0 && s.ln == 0 && s.idx == seq[i-1].textpos(rtl) {
			continue
		}
		out = append(out, []int{s.idx, s.idx + s.ln})
	}
	if n == 0 {
		return nil
	}
	return out
}

func c07EqPairs(a, b [][]int) bool {
	if (a == nil) != (b == nil) || len(a) != len(b) {
		return false
	}
	for i := range a {
		if len(a[i]) != 2 || len(b[i]) != 2 || a[i][0] != b[i][0] || a[i][1] != b[i][1] {
			return false
		}
	}
	return true
}

func c07RuneToByte(s string) []int {
	var offs []int
	for i := range s {
		offs = append(offs, i)
	}
	return append(offs, len(s))
}

func c07EncSeq(seq []c07Span, rtl bool) []int64 {
	out := []int64{0, int64(len(seq))}
	for _, s := range seq {
		out = append(out, int64(s.idx), int64(s.ln), int64(s.textpos(rtl)))
	}
	return out
}

func c07EncPairs(p [][]int) []int64 {
	if p == nil {
		return []int64{0, -1}
	}
	out := []int64{0, int64(len(p))}
	for _, x := range p {
		out = append(out, int64(x[0]), int64(x[1]))
	}
	return out
}

var c07Ns = []int{-1, 0, 1, 2, 3}

// c07Deadline runs a library call that loops internally (find-all) on its own goroutine, so that a
// non-terminating loop is REPORTED (hung = true) instead of hanging the check.  A panic comes back as err.
func c07Deadline[T any](d time.Duration, f func() (T, error)) (res T, err error, hung bool) {
	type out struct {
		r T
		e error
	}
	ch := make(chan out, 1)
	go func() {
		defer func() {
			if p := recover(); p != nil {
				var z T
				ch <- out{z, fmt.Errorf("panic: %v", p)}
			}
		}()
		r, e := f()
		ch <- out{r, e}
	}()
	select {
	case o := <-ch:
		return o.r, o.e, false
	case <-time.After(d):
		return res, nil, true
	}
}

type c07Stats struct {
	rtl, ltr, withG, filtered, harvested, lookbehind, modelled, emptyAdj, multi int
	nSeen                                                                       map[int]int
	abort                                                                       bool // a library call hung: stop generating
	modelledG                                                                   int
}

// one (pattern, direction, input) unit; adds one case per n
func c07Unit(c *Ctx, st *c07Stats, cre *c07Re, pat string, rtl bool, extra regexp2.RegexOptions, in string, origin string) {
	re := cre.re
	runes := []rune(in)
	L := len(runes)
	desc := fmt.Sprintf("%s pattern %q rtl=%v opts=%#x input %q", origin, pat, rtl, int(extra), in)
	var direct []string
	fail := func(f string, a ...any) { direct = append(direct, fmt.Sprintf(f, a...)) }

	startDefault := 0
	if rtl {
		startDefault = L
	}
	start := startDefault
	if c.Rng.Chance(25) {
		start = c.Rng.Intn(L + 1)
	}
	seq, over, err := c07Sequence(re, func() (*regexp2.Match, error) { return re.FindRunesMatchStartingAt(runes, start) }, L+2)
	if err != nil {
		if strings.HasPrefix(err.Error(), "panic") {
			c.Add(&Case{Desc: desc, Direct: "iteration panicked: " + err.Error()})
		} else {
			// a documented error return (stack limit, timeout) is not a statement about iteration order
			c.Hist("skipped-engine-error")
		}
		return
	}
	if over {
		// do not enter the library's own find-all loops on a pattern whose iteration does not stop
		c.Add(&Case{Desc: desc, Direct: fmt.Sprintf("iteration did not stop after len+2 = %d steps (non-termination or more than len+1 matches): %v", L+2, seq)})
		return
	}
	if len(seq) > L+1 {
		fail("%d matches on %d runes (bound is len+1)", len(seq), L)
	}
	hasG := strings.Contains(pat, `\G`)
	for i := 1; i < len(seq); i++ {
		a, b := seq[i-1], seq[i]
		if rtl {
			if !(b.idx+b.ln < a.idx+a.ln && b.idx+b.ln <= a.idx) {
				fail("right-to-left order/overlap violated between %v and %v", a, b)
			}
		} else {
			if !(a.idx < b.idx && a.idx+a.ln <= b.idx) {
				fail("left-to-right order/overlap violated between %v and %v", a, b)
			}
		}
		if a.ln == 0 && b.ln == 0 && a.idx == b.idx {
			fail("empty match %v returned twice", a)
		}
	}
	// each next match is a fresh search from the previous end (\G-free patterns)
	if !hasG && err == nil && !over {
		for i := range seq {
			a := seq[i]
			from := a.textpos(rtl)
			var want *c07Span
			off := false
			if a.ln == 0 {
				if rtl {
					from--
				} else {
					from++
				}
				if from < 0 || from > L {
					off = true
				}
			}
			if !off {
				m, e := func() (m *regexp2.Match, e error) {
					defer func() {
						if p := recover(); p != nil {
							e = fmt.Errorf("panic: %v", p)
						}
					}()
					return re.FindRunesMatchStartingAt(runes, from)
				}()
				if e != nil {
					fail("fresh search from %d failed: %v", from, e)
					continue
				}
				if m != nil {
					want = &c07Span{m.RuneIndex, m.RuneLength}
				}
			}
			var got *c07Span
			if i+1 < len(seq) {
				got = &seq[i+1]
			}
			if (got == nil) != (want == nil) || (got != nil && *got != *want) {
				fail("FindNextMatch after %v = %v, independent search from %d = %v", a, got, from, want)
			}
		}
	}
	// the default-start sequence drives the find-all comparisons
	dseq := seq
	if start != startDefault {
		var e2 error
		dseq, _, e2 = c07Sequence(re, func() (*regexp2.Match, error) { return re.FindRunesMatch(runes) }, L+2)
		if e2 != nil {
			if strings.HasPrefix(e2.Error(), "panic") {
				c.Add(&Case{Desc: desc, Direct: "default iteration panicked: " + e2.Error()})
			} else {
				c.Hist("skipped-engine-error")
			}
			return
		}
	}
	// string iteration = rune iteration (valid UTF-8 input; \G-free so the prefilter origin is irrelevant)
	if !hasG {
		sseq, sover, serr := c07Sequence(re, func() (*regexp2.Match, error) { return re.FindStringMatch(in) }, L+2)
		if serr != nil && !strings.HasPrefix(serr.Error(), "panic") {
			c.Hist("skipped-engine-error")
			return
		}
		if serr != nil || sover || len(sseq) != len(dseq) {
			fail("FindStringMatch iteration %v (err %v) differs from FindRunesMatch iteration %v", sseq, serr, dseq)
		} else {
			for i := range sseq {
				if sseq[i] != dseq[i] {
					fail("FindStringMatch iteration %v differs from FindRunesMatch iteration %v", sseq, dseq)
					break
				}
			}
		}
	}
	if rtl {
		st.rtl++
	} else {
		st.ltr++
	}
	if hasG {
		st.withG++
	}
	if strings.Contains(pat, "(?<") {
		st.lookbehind++
	}
	nEmptyAdj := 0
	for i := 1; i < len(dseq); i++ {
		if dseq[i].ln == 0 && dseq[i].idx == dseq[i-1].textpos(rtl) {
			nEmptyAdj++
		}
	}
	if nEmptyAdj > 0 {
		st.emptyAdj++
	}
	if len(seq) >= 2 {
		st.multi++
	}

	// attempt table for the model
	var table []int64
	modelOK := cre.anc != nil && err == nil && !over
	if modelOK {
		table = append(table, int64(L+1))
		for p := 0; p <= L; p++ {
			m, e := func() (m *regexp2.Match, e error) {
				defer func() {
					if pp := recover(); pp != nil {
						e = fmt.Errorf("panic: %v", pp)
					}
				}()
				return cre.anc.FindRunesMatchStartingAt(runes, p)
			}()
			if e != nil {
				modelOK = false
				break
			}
			if m == nil {
				table = append(table, int64(p), 0, 0, 0, 0, 0)
				continue
			}
			s := c07Span{m.RuneIndex, m.RuneLength}
			if s.start(rtl) != p {
				fail("forward violated: anchored attempt at %d returned span %v", p, s)
			}
			table = append(table, int64(p), 1, int64(s.idx), int64(s.ln), int64(s.textpos(rtl)), 0)
		}
	}

	modelLeg := 701
	if hasG && err == nil && !over {
		// two-dimensional table: key ts*(L+1)+p, for every pair the scan can visit
		modelLeg = 702
		modelOK = true
		var ent []int64
		cnt := 0
		for p := 0; p <= L && modelOK; p++ {
			w := cre.anchoredAt(p)
			if w == nil {
				modelOK = false
				break
			}
			for ts := 0; ts <= L; ts++ {
				if (!rtl && ts > p) || (rtl && ts < p) {
					continue
				}
				m, e := func() (m *regexp2.Match, e error) {
					defer func() {
						if pp := recover(); pp != nil {
							e = fmt.Errorf("panic: %v", pp)
						}
					}()
					return w.FindRunesMatchStartingAt(runes, ts)
				}()
				if e != nil {
					modelOK = false
					break
				}
				key := int64(ts*(L+1) + p)
				cnt++
				if m == nil {
					ent = append(ent, key, 0, 0, 0, 0, 0)
					continue
				}
				s := c07Span{m.RuneIndex, m.RuneLength}
				if s.start(rtl) != p {
					fail("forward violated: attempt anchored at %d (\\G origin %d) returned span %v", p, ts, s)
				}
				ent = append(ent, key, 1, int64(s.idx), int64(s.ln), int64(s.textpos(rtl)), 0)
			}
		}
		table = append([]int64{int64(cnt)}, ent...)
	}

	bo := c07RuneToByte(in)
	for _, n := range c07Ns {
		st.nSeen[n]++
		var d []string
		d = append(d, direct...)
		want := c07Filtered(dseq, rtl, n)
		got, e, hung := c07Deadline(5*time.Second, func() ([][]int, error) { return re.FindAllRunesIndex(runes, n) })
		if hung {
			c.Add(&Case{Desc: fmt.Sprintf("%s start=%d n=%d", desc, start, n), Direct: "FindAllRunesIndex did not return within 5s (non-terminating find-all loop)"})
			st.abort = true
			return
		}
		if e != nil && !strings.HasPrefix(e.Error(), "panic") {
			c.Hist("skipped-engine-error")
			continue
		}
		if e != nil {
			d = append(d, fmt.Sprintf("FindAllRunesIndex(n=%d) failed: %v", n, e))
		} else if !c07EqPairs(got, want) {
			d = append(d, fmt.Sprintf("FindAllRunesIndex(n=%d) = %v (nil=%v), filtered iteration = %v (nil=%v)", n, got, got == nil, want, want == nil))
		}
		if len(want) < len(dseq) && (n < 0 || len(want) < n) {
			st.filtered++
		}
		if !hasG {
			var wantB [][]int
			if want != nil {
				for _, w := range want {
					wantB = append(wantB, []int{bo[w[0]], bo[w[1]]})
				}
			}
			gotS, e, hung := c07Deadline(5*time.Second, func() ([][]int, error) { return re.FindAllStringIndex(in, n) })
			if hung {
				c.Add(&Case{Desc: fmt.Sprintf("%s start=%d n=%d", desc, start, n), Direct: "FindAllStringIndex did not return within 5s (non-terminating find-all loop)"})
				st.abort = true
				return
			}
			if e != nil && !strings.HasPrefix(e.Error(), "panic") {
				c.Hist("skipped-engine-error")
				continue
			}
			if e != nil {
				d = append(d, fmt.Sprintf("FindAllStringIndex(n=%d) failed: %v", n, e))
			} else if !c07EqPairs(gotS, wantB) {
				d = append(d, fmt.Sprintf("FindAllStringIndex(n=%d) = %v (nil=%v), filtered iteration in bytes = %v (nil=%v)", n, gotS, gotS == nil, wantB, wantB == nil))
			}
			// the regexp-compatible adapter's find-all methods: some delegate, some iterate with FindNextMatch themselves
			// (valid UTF-8 only: on invalid bytes the adapter's offsets follow Go's rules, C06's business)
			if e == nil && utf8.ValidString(in) {
				func() {
					defer func() {
						if pp := recover(); pp != nil {
							d = append(d, fmt.Sprintf("compat find-all (n=%d) panicked: %v", n, pp))
						}
					}()
					cw := compat.Wrap(re)
					head := func(x [][]int) [][]int {
						var o [][]int
						for _, r := range x {
							o = append(o, r[:2])
						}
						return o
					}
					for name, gotC := range map[string][][]int{
						"FindAllStringIndex":         cw.FindAllStringIndex(in, n),
						"FindAllIndex":               cw.FindAllIndex([]byte(in), n),
						"FindAllStringSubmatchIndex": head(cw.FindAllStringSubmatchIndex(in, n)),
						"FindAllSubmatchIndex":       head(cw.FindAllSubmatchIndex([]byte(in), n)),
					} {
						if !c07EqPairs(gotC, wantB) && !(len(gotC) == 0 && len(wantB) == 0) {
							d = append(d, fmt.Sprintf("compat %s(n=%d) = %v, filtered iteration in bytes = %v", name, n, gotC, wantB))
						}
					}
					strs := cw.FindAllString(in, n)
					if len(strs) != len(wantB) {
						d = append(d, fmt.Sprintf("compat FindAllString(n=%d) returns %d strings, the filtered iteration has %d", n, len(strs), len(wantB)))
					} else {
						for k, w := range wantB {
							if strs[k] != in[w[0]:w[1]] {
								d = append(d, fmt.Sprintf("compat FindAllString(n=%d)[%d] = %q, want %q", n, k, strs[k], in[w[0]:w[1]]))
								break
							}
						}
					}
				}()
			}
		}
		cs := &Case{Desc: fmt.Sprintf("%s start=%d n=%d", desc, start, n), Class: origin,
			Key: fmt.Sprintf("%s|%v|%#x|%s", pat, rtl, int(extra), in),
			Nontrivial: len(seq) >= 2 && nEmptyAdj+func() int {
				z := 0
				for _, s := range seq {
					if s.ln == 0 {
						z++
					}
				}
				return z
			}() > 0,
			Direct: strings.Join(d, "; ")}
		if modelOK && e == nil {
			cs.ModelLeg = modelLeg
			if modelLeg == 702 {
				st.modelledG++
			}
			cs.ModelIn = append([]int64{b2i(rtl), int64(L), int64(start), int64(n)}, table...)
			cs.ImplOut = append(c07EncSeq(seq, rtl), c07EncPairs(got)...)
			st.modelled++
		}
		c.Add(cs)
	}
}

func legC07Iter(c *Ctx) {
	c.Rule("fixed nullable/zero-width corpus + random grammar (atoms a b . [ab] \\b \\B ^ $ \\G lookahead/lookbehind, empty; concat, alternation with empty branches, greedy/lazy quantifiers, groups) + every pattern literal of /repo/*_test.go; x short inputs over {a,b,space,\\n,1,é,c} x both directions x random start x n in {-1,0,1,2,3}; non-trivial = at least two matches and at least one empty match (distinct by pattern, direction, options, input)")
	st := &c07Stats{nSeen: map[int]int{}}
	run := func(pat string, rtl bool, extra regexp2.RegexOptions, inputs []string, origin string) {
		cre, err := c07Compile(pat, rtl, extra)
		if err != nil {
			if strings.HasPrefix(err.Error(), "panic") {
				c.Add(&Case{Desc: fmt.Sprintf("%s pattern %q rtl=%v", origin, pat, rtl), Direct: err.Error()})
			}
			return
		}
		for _, in := range inputs {
			if st.abort {
				return
			}
			c07Unit(c, st, cre, pat, rtl, extra, in, origin)
		}
	}
	// deterministic corpus
	for _, w := range c07Witnesses {
		run(w.pat, w.rtl, 0, []string{w.in}, "corpus")
	}
	// patterns searched through a chain of required landmarks (a leading set loop, then literals): a continuation scan
	// must not walk back over the loop's characters into the previous match
	for _, lp := range []string{
		`(?P<name>[-\w\d\.]+?)(?:\s+at\s+|\s*@\s*|\s*(?:[\[\]@]){3}\s*)(?P<host>[-\w\d\.]*?)\s*(?:dot|\.|(?:[\[\]dot\.]){3,5})\s*(?P<domain>\w+)`,
		`[-\w.]+?\s*@\s*[-\w.]*?\s*\.\s*\w+`, `\w+@\w+\.\w+`, `[\w-]+\s*=\s*\d+`, `[a-z]+ = [0-9]+;`, `\w+(?:-|\s+)\w+(?:=|\d)\w+`,
	} {
		for _, extra := range []regexp2.RegexOptions{regexp2.RE2, 0} {
			run(lp, false, extra, []string{"a@b.c-d@e.f", "a@b.cd@e.f x@y.z", "k=1k=22 x = 3;y = 4;", "ab-cd=ef-gh1ij", "a@b.c"}, "corpus")
		}
	}
	detInputs := []string{"", "a", "b", "ab", "ba", "aab", "baaab", "a b", "ab\nab", "éa", "abba"}
	for _, p := range c07Fixed {
		for _, rtl := range []bool{false, true} {
			run(p, rtl, 0, detInputs, "corpus")
		}
	}
	// harvested
	hv := c07Harvest()
	nh := c.N(800, len(hv))
	for i := 0; i < nh && len(hv) > 0; i++ {
		p := hv[c.Rng.Intn(len(hv))]
		if c.Thorough {
			p = hv[i]
		}
		rtl := c.Rng.Chance(40)
		ins := []string{c07Input(c.Rng, p), c07Input(c.Rng, p)}
		before := st.ltr + st.rtl
		run(p, rtl, 0, ins, "harvested")
		if st.ltr+st.rtl > before {
			st.harvested++
		}
	}
	// random grammar
	ng := c.N(6000, 60000)
	for i := 0; i < ng; i++ {
		p := c07Gen(c.Rng, 1+c.Rng.Intn(3), c.Rng.Chance(35))
		rtl := c.Rng.Chance(45)
		var extra regexp2.RegexOptions
		if c.Rng.Chance(10) {
			extra |= regexp2.Multiline
		}
		if c.Rng.Chance(8) {
			extra |= regexp2.IgnoreCase
		}
		ins := []string{c07Input(c.Rng, p), c07Input(c.Rng, p), c07Input(c.Rng, p)}
		run(p, rtl, extra, ins, "random")
	}
	if st.abort {
		return
	}
	c.Gate("right-to-left units", st.rtl > 50)
	c.Gate("left-to-right units", st.ltr > 50)
	c.Gate("patterns with \\G", st.withG > 20)
	c.Gate("lookbehind patterns", st.lookbehind > 20)
	c.Gate("harvested patterns compiled and ran", st.harvested > 20)
	c.Gate("find-all skipped an adjacent empty match", st.filtered > 20)
	c.Gate("iterations with an empty match adjacent to its predecessor", st.emptyAdj > 20)
	c.Gate("iterations with at least two matches", st.multi > 100)
	c.Gate("model fed with an attempt table", st.modelled > 500)
	c.Gate("model fed with a two-dimensional (\\G origin x position) attempt table", st.modelledG > 100)
	for _, n := range c07Ns {
		c.Gate(fmt.Sprintf("n=%d exercised", n), st.nSeen[n] > 100)
	}
}
