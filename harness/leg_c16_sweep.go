package main

import (
	"fmt"
	"sort"
	"sync"
	"unicode"

	"github.com/dlclark/regexp2/v2/syntax"
)

// Leg c16-sweep: a few classes per mode swept over EVERY code point (and the two invalid runes next
// to the code space), three-way: implementation (CharIn with the ASCII bitmap, MatchRunes of ^[..]$),
// model char_in on the exported class, set algebra on the generator's expression.  The answers are
// compared as run-length encodings.

func init() { registerLeg("c16-sweep", "C16", legC16Sweep) }

var (
	c16SweepMu    sync.Mutex
	c16CatRanges  = map[string][]int64{} // name -> flattened sorted (lo, hi) pairs
	c16FoldPoints []int64                // (rune, SimpleFold rune) where not the identity
	c16FoldOnce   sync.Once
)

func c16CatRangeEnc(name string) []int64 {
	c16SweepMu.Lock()
	defer c16SweepMu.Unlock()
	if v, ok := c16CatRanges[name]; ok {
		return v
	}
	var out []int64
	start := rune(-1)
	for r := rune(0); r <= 0x110000; r++ {
		in := r <= 0x10ffff && c16CatIn(name, r)
		if in && start < 0 {
			start = r
		} else if !in && start >= 0 {
			out = append(out, int64(start), int64(r-1))
			start = -1
		}
	}
	c16CatRanges[name] = out
	return out
}

func c16EncOracleRT(cats []string) []int64 {
	c16FoldOnce.Do(func() {
		for r := rune(0); r <= 0x10ffff; r++ {
			if f := unicode.SimpleFold(r); f != r {
				c16FoldPoints = append(c16FoldPoints, int64(r), int64(f))
			}
		}
	})
	out := []int64{int64(len(cats))}
	for _, n := range cats {
		rs := c16CatRangeEnc(n)
		out = append(out, c16CatID(n), int64(len(rs)/2))
		out = append(out, rs...)
	}
	out = append(out, int64(len(c16FoldPoints)/2))
	return append(out, c16FoldPoints...)
}

// the sweep [lo, hi] as consecutive spans of at most 4096 runes (the model recurses on a span's length)
func c16Spans(lo, hi rune) []int64 {
	var out []int64
	n := int64(0)
	for a := lo; a <= hi; a += 4096 {
		b := a + 4095
		if b > hi {
			b = hi
		}
		out = append(out, int64(a), int64(b))
		n++
	}
	return append([]int64{n}, out...)
}

func c16RLE(lo, hi rune, f func(rune) bool) []int64 {
	cur := f(lo)
	out := []int64{b2i(cur)}
	for r := lo + 1; r <= hi; r++ {
		if v := f(r); v != cur {
			out = append(out, int64(r))
			cur = v
		}
	}
	return out
}

func legC16Sweep(c *Ctx) {
	c16Setup()
	c.Rule("bracket expressions from the c16-class grammar, every mode, swept over every rune from -1 to 0x110000 (CharIn with ASCII bitmap and MatchRunes of ^[..]$ against model char_in on the exported class) and over U+0000-U+10FFFF (set algebra on the generator's expression); compared as run-length encodings; non-trivial = at least two members, negation or subtraction (distinct by pattern and mode)")
	n := c.N(1, 40)
	for i := 0; i < n; i++ {
		for mi, m := range c16Modes {
			if mi >= 4 && i%2 == 1 {
				continue
			}
			c16SweepOne(c, m)
			c.Flush()
		}
	}
}

func c16SweepOne(c *Ctx, m c16Mode) {
	rg := c.Rng
	syn := c16GenSyn(rg, m, 0)
	pat := syn.print(rg, m)
	facts := &c16Facts{cats: map[string]bool{}}
	syn.facts(m, facts, 0)
	desc := fmt.Sprintf("sweep of class %s mode=%s", pat, m.name)
	key := pat + "|" + m.name
	nontrivial := facts.nItems >= 2 || syn.neg || syn.sub != nil
	var cs *syntax.CharSet
	var perr error
	func() {
		defer func() {
			if r := recover(); r != nil {
				perr = fmt.Errorf("panic: %v", r)
			}
		}()
		cs, _, perr = syntax.VerifScanCharSet(pat, syntax.RegexOptions(m.opts))
	}()
	if perr != nil {
		c.Add(&Case{Desc: desc, Key: key, Class: m.name, Direct: "generated class does not parse: " + perr.Error()})
		return
	}
	used := map[string]bool{}
	cs.VerifPrepareASCIIBitmap()
	enc := encCls(cs, used)
	for k := range facts.cats {
		used[k] = true
	}
	cats := sortedKeys(used)
	sort.Strings(cats)
	oracle := c16EncOracleRT(cats)
	implAll := c16RLE(-1, 0x110000, cs.CharIn)
	direct := ""
	if eng, err := c16Compile(pat, m, true); err != nil {
		direct = "does not compile: " + err.Error()
	} else {
		func() {
			defer func() {
				if r := recover(); r != nil {
					direct = fmt.Sprintf("panic in MatchRunes: %v", r)
				}
			}()
			buf := make([]rune, 1)
			got := c16RLE(-1, 0x110000, func(r rune) bool {
				buf[0] = r
				ok, err := eng.re[0].MatchRunes(buf)
				if err != nil && direct == "" {
					direct = fmt.Sprintf("MatchRunes(%s, %U): %v", eng.desc[0], r, err)
				}
				return ok
			})
			if direct == "" && !eqInts(got, implAll) {
				direct = fmt.Sprintf("MatchRunes(%s) over all runes has flips %v, CharIn has %v", eng.desc[0], got, implAll)
			}
		}()
	}
	c.Add(&Case{Desc: desc + " [char_in on the exported class, runes -1..0x110000]", Key: key, Class: m.name, Nontrivial: nontrivial, Direct: direct,
		ModelLeg: 1606, ModelIn: append(append(append([]int64{}, oracle...), enc...), c16Spans(-1, 0x110000)...), ImplOut: implAll})
	guard := ""
	if facts.ciNegCase {
		guard = "ci_negated_case_category"
	}
	implValid := c16RLE(0, 0x10ffff, cs.CharIn)
	in := append(append(append([]int64{}, oracle...), m.bits()), syn.enc(nil)...)
	c.Add(&Case{Desc: desc + " [denote, U+0000..U+10FFFF]", Key: key, Class: m.name, Guard: guard,
		ModelLeg: 1607, ModelIn: append(in, c16Spans(0, 0x10ffff)...), ImplOut: implValid})
}
