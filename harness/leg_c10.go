package main

// C10: arbitrary patterns and inputs never panic or hang the API (exploration of the parser glue and
// argument sweeps of every entry point; the modelled layers have their own no-crash theorems).

import (
	"errors"
	"fmt"
	"os"
	"path/filepath"
	"strings"
	"time"

	"github.com/dlclark/regexp2/v2"
	"github.com/dlclark/regexp2/v2/compat"
	"github.com/dlclark/regexp2/v2/syntax"
)

func init() {
	registerLeg("c10-robust", "C10", legRobust)
}

var corpusSeeds []string

func loadCorpus() []string {
	if corpusSeeds != nil {
		return corpusSeeds
	}
	files, _ := filepath.Glob(repoPath()+"/syntax/workdir/*/*")
	more, _ := filepath.Glob(repoPath()+"/syntax/workdir/*/*/*")
	files = append(files, more...)
	for _, f := range files {
		st, err := os.Stat(f)
		if err != nil || st.IsDir() || st.Size() > 400 {
			continue
		}
		b, err := os.ReadFile(f)
		if err == nil {
			corpusSeeds = append(corpusSeeds, string(b))
		}
	}
	corpusSeeds = append(corpusSeeds, harvestedPatterns()...)
	if len(corpusSeeds) == 0 {
		corpusSeeds = []string{"a"}
	}
	return corpusSeeds
}

var robustFrags = []string{"(", ")", "[", "]", "{", "}", "|", "*", "+", "?", "\\", "^", "$", ".", "(?", "(?<", "(?<n>", "(?'n'", "(?P<n>", "(?<-n>", "(?<a-b>", "(?(", "(?(1)", "(?=", "(?<=", "(?!", "(?<!", "(?>", "(?#", "(?i", "(?-", "(?x:", "(?n)", "\\k<", "\\k<n>", "\\1", "\\10", "\\p{", "\\p{L}", "\\P{Lu", "\\p{wb}", "\\p{Word_Break}", "\\P{sb}", "\\p{gcb=Extend}", "\\p{emoji}", "\\x", "\\x{", "\\u12", "\\c", "\\0", "\\b", "\\G", "\\Z", "{1,", "{2}", "{3,2}", "{99999999999}", "{0,2147483647}", "[^", "[a-", "[z-a]", "[[:alpha:]]", "[a-z-[b]]", "-[", "#", " ", "\n", "\x00", "\xff", "é", "😀", "͸", "$1", "${", "${n}", "$$"}

func mutatePattern(r *Rng, s string) string {
	b := []byte(s)
	for k := 1 + r.Intn(3); k > 0; k-- {
		switch r.Intn(6) {
		case 0:
			if len(b) > 0 {
				i := r.Intn(len(b))
				b = append(b[:i], b[i+1:]...)
			}
		case 1:
			i := r.Intn(len(b) + 1)
			f := Pick(r, robustFrags)
			b = append(b[:i], append([]byte(f), b[i:]...)...)
		case 2:
			if len(b) > 0 {
				b[r.Intn(len(b))] = byte(r.Intn(256))
			}
		case 3:
			if len(b) > 0 {
				b = b[:r.Intn(len(b))]
			}
		case 4:
			if len(b) > 1 {
				i, j := r.Intn(len(b)), r.Intn(len(b))
				if i > j {
					i, j = j, i
				}
				b = append(b, b[i:j]...)
			}
		default:
			b = append(b, []byte(Pick(r, robustFrags))...)
		}
	}
	if len(b) > 300 {
		b = b[:300]
	}
	return string(b)
}

// allowedErr: a timeout, the backtracking stack limit, or a documented argument error
func allowedErr(err error) bool {
	if err == nil || errors.Is(err, regexp2.ErrBacktrackingStackLimit) {
		return true
	}
	msg := err.Error()
	for _, ok := range []string{"match timeout", "startAt must", "count too small", "startAt", "Count cannot be less than -1", "error parsing regexp"} {
		if strings.Contains(msg, ok) {
			return true
		}
	}
	return false
}

func guarded(name string, bad *[]string, allowErrPanic bool, f func() error) {
	guardedT(name, 8*time.Second, bad, allowErrPanic, f)
}

// (Compile of a long run of negated shorthand classes under IgnoreCase folds a 1.1-million-rune range per class:
// slow, some 0.1 s each, not a hang — it gets a longer leash)
func guardedT(name string, limit time.Duration, bad *[]string, allowErrPanic bool, f func() error) {
	done := make(chan struct{})
	var pan any
	var err error
	go func() {
		defer close(done)
		defer func() { pan = recover() }()
		err = f()
	}()
	select {
	case <-done:
	case <-time.After(limit):
		*bad = append(*bad, fmt.Sprintf("%s: did not return within %v (hang)", name, limit))
		return
	}
	if pan != nil {
		if allowErrPanic {
			if e, ok := pan.(error); ok && allowedErr(e) {
				return
			}
			if s, ok := pan.(string); ok && (strings.Contains(s, "match timeout") || strings.Contains(s, "backtracking stack")) {
				return
			}
		}
		*bad = append(*bad, fmt.Sprintf("%s: panic: %v", name, pan))
		return
	}
	if !allowedErr(err) {
		*bad = append(*bad, fmt.Sprintf("%s: undocumented error: %v", name, err))
	}
}

var robustInputs = []string{"", "a", "\x00", "\xff\xfe", "a\x00b", "😀", "\U0010ffff", "aaaaaaaaaaaaaaaaaaaaaaaa", "ab\nab\r\n", "é́", "\xed\xa0\x80x", "$1${n}\\", "((((", "abcABC123_-. "}
var robustRepl = []string{"", "$0", "$1", "${n}", "$&$`$'$+$_$$", "${", "$1a", "$99999999999", "\\$", "${1", "\xff$1"}

func legRobust(c *Ctx) {
	c.Rule("patterns: byte-level mutations of the parser corpus shipped in syntax/workdir (1,883 files) and of every harvested test pattern, spliced with syntax fragments; options: a random subset of the 2^9 regex options plus compile options (stack limit, bitmap off, code-gen analysis, MaintainCaptureOrder); every pattern goes through Compile / MustCompile; compiled ones run every match, iterate, find-all, replace, split, escape/unescape and adapter method on hostile inputs (empty, NUL, invalid UTF-8, astral) with out-of-range start offsets and counts; each call under recover and an 8 s watchdog with a 100 ms MatchTimeout; allowed outcomes: normal return, parse error, timeout, stack limit, documented argument error; non-trivial = pattern compiled (distinct by pattern,options)")
	seeds := loadCorpus()
	n := c.N(12000, 400000)
	compiled := 0
	for i := 0; i < n; i++ {
		pat := Pick(c.Rng, seeds)
		if c.Rng.Chance(80) {
			pat = mutatePattern(c.Rng, pat)
		}
		var ro regexp2.RegexOptions
		for _, b := range []regexp2.RegexOptions{regexp2.IgnoreCase, regexp2.Multiline, regexp2.ExplicitCapture, regexp2.Singleline, regexp2.IgnorePatternWhitespace, regexp2.RightToLeft, regexp2.ECMAScript, regexp2.RE2, regexp2.Unicode} {
			if c.Rng.Chance(22) {
				ro |= b
			}
		}
		opts := []regexp2.CompileOption{ro}
		if c.Rng.Chance(15) {
			opts = append(opts, regexp2.OptionMaxBacktrackingStackSize(Pick(c.Rng, []int{0, 1, 16, 64, 100, 257, 1000})))
		}
		if c.Rng.Chance(15) {
			opts = append(opts, regexp2.OptionDisableCharClassASCIIBitmap())
		}
		if c.Rng.Chance(15) {
			opts = append(opts, regexp2.OptionIsCodeGen())
		}
		if c.Rng.Chance(10) {
			opts = append(opts, regexp2.OptionMaintainCaptureOrder())
		}
		var bad []string
		var re *regexp2.Regexp
		guardedT("Compile", 90*time.Second, &bad, false, func() error {
			var err error
			re, err = regexp2.Compile(pat, opts...)
			if err != nil {
				var se *syntax.Error
				if !errors.As(err, &se) && !strings.Contains(err.Error(), "error parsing regexp") && !strings.Contains(err.Error(), "unexpected opcode") {
					return fmt.Errorf("Compile returned a non-parse error: %w", err)
				}
				re = nil
			}
			return nil
		})
		desc := fmt.Sprintf("pattern %+q options=%#x", pat, int(ro))
		if re != nil {
			compiled++
			re.MatchTimeout = 100 * time.Millisecond
			if c.Rng.Chance(5) {
				guardedT("MustCompile", 90*time.Second, &bad, false, func() error { regexp2.MustCompile(pat, opts...); return nil })
			}
			in := Pick(c.Rng, robustInputs)
			if c.Rng.Chance(30) {
				in = mutatePattern(c.Rng, in)
			}
			r := []rune(in)
			start := c.Rng.Intn(len(in)+4) - 2
			count := Pick(c.Rng, []int{-2, -1, 0, 1, 2, 1 << 40})
			repl := Pick(c.Rng, robustRepl)
			w := compat.Wrap(re)
			guarded("MatchString", &bad, false, func() error { _, err := re.MatchString(in); return err })
			guarded("MatchRunes", &bad, false, func() error { _, err := re.MatchRunes(r); return err })
			guarded("FindStringMatchStartingAt", &bad, false, func() error {
				m, err := re.FindStringMatchStartingAt(in, start)
				for k := 0; m != nil && err == nil && k < len(r)+3; k++ {
					_ = m.String()
					m.ByteRange()
					for _, g := range m.Groups() {
						_ = g.String()
						g.ByteRange()
					}
					m.GroupByName("n")
					m.GroupByNumber(k)
					m, err = re.FindNextMatch(m)
				}
				return err
			})
			guarded("FindRunesMatchStartingAt", &bad, false, func() error {
				m, err := re.FindRunesMatchStartingAt(r, start)
				if m != nil {
					_ = m.String()
					m.Groups()
				}
				return err
			})
			guarded("FindAllStringIndex", &bad, false, func() error { _, err := re.FindAllStringIndex(in, count); return err })
			guarded("FindAllRunesIndex", &bad, false, func() error { _, err := re.FindAllRunesIndex(r, count); return err })
			guarded("Replace", &bad, false, func() error { _, err := re.Replace(in, repl, start, count); return err })
			guarded("ReplaceFunc", &bad, false, func() error {
				_, err := re.ReplaceFunc(in, func(m regexp2.Match) string { return m.String() + repl }, start, count)
				return err
			})
			guarded("Split", &bad, false, func() error { _, err := re.Split(in, count); return err })
			guarded("group maps", &bad, false, func() error {
				for _, nm := range re.GetGroupNames() {
					re.GroupNumberFromName(nm)
				}
				for _, k := range re.GetGroupNumbers() {
					re.GroupNameFromNumber(k)
				}
				re.GroupNumberFromName(in)
				re.GroupNameFromNumber(start)
				return nil
			})
			guarded("adapter", &bad, true, func() error {
				w.MatchString(in)
				w.Match([]byte(in))
				w.FindStringSubmatchIndex(in)
				w.FindAllStringSubmatch(in, count)
				w.FindAllIndex([]byte(in), count)
				w.FindAllString(in, count)
				w.FindReaderIndex(strings.NewReader(in))
				w.FindSubmatch([]byte(in))
				// every remaining method of the adapter, on the hostile text and on a text most patterns match in part
				for _, t := range []string{in, "ab 12 ab"} {
					b := []byte(t)
					w.MatchReader(strings.NewReader(t))
					w.Find(b)
					w.FindIndex(b)
					w.FindString(t)
					w.FindStringIndex(t)
					w.FindSubmatchIndex(b)
					w.FindStringSubmatch(t)
					w.FindReaderSubmatchIndex(strings.NewReader(t))
					for _, n := range []int{count, -1, 2} {
						w.FindAll(b, n)
						w.FindAllStringIndex(t, n)
						w.FindAllSubmatch(b, n)
						w.FindAllSubmatchIndex(b, n)
						w.FindAllStringSubmatch(t, n)
						w.FindAllStringSubmatchIndex(t, n)
					}
				}
				_ = w.String()
				return nil
			})
		}
		if c.Rng.Chance(20) {
			guarded("Escape/Unescape", &bad, false, func() error {
				e := regexp2.Escape(pat)
				if _, err := regexp2.Unescape(e); err != nil && strings.ToValidUTF8(pat, "x") == pat {
					return fmt.Errorf("Unescape(Escape(s)) failed: %v", err)
				}
				regexp2.Unescape(pat)
				return nil
			})
		}
		cs := &Case{Desc: desc, Nontrivial: re != nil, Key: desc, Class: fmt.Sprintf("compiled=%v", re != nil)}
		if len(bad) > 0 {
			cs.Direct = strings.Join(bad, " | ")
		}
		c.Add(cs)
	}
	c.Gate("at least a fifth of the mutated patterns compile", compiled*5 >= n)

	// every loop opcode in every direction of travel: character loops (one / set / not-one / any) x greedy, lazy,
	// counted, atomic, inside lookbehind, negative lookbehind, lookahead, plain and under RightToLeft, on every short
	// text over the pattern's letters, alone and with text on the far side (the budget of a loop must be the number of
	// characters in ITS direction, whatever lies on the other side), from every start offset
	atoms := []string{"a", "[ab]", "[^c]", ".", "(?:ab)", "(a)"}
	quants := []string{"*", "+", "{1,3}", "*?", "+?", "{0,2}?", "{2}"}
	frames := []struct {
		pat string
		rtl bool
	}{{"(?<=c%s)d", false}, {"(?<!c%s)d", false}, {"(?<=%sc)d", false}, {"c%sd", true}, {"d(?=%sc)", false}, {"c%sd", false}, {"(?<=c(?>%s))d", false}, {"%s", true}}
	var texts [][]rune
	var rec func(cur []rune)
	rec = func(cur []rune) {
		texts = append(texts, append([]rune{}, cur...))
		if len(cur) == 4 {
			return
		}
		for _, ch := range []rune("abcd") {
			rec(append(append([]rune{}, cur...), ch))
		}
	}
	rec(nil)
	loopCalls := 0
	for _, at := range atoms {
		for _, q := range quants {
			for _, fr := range frames {
				pat := fmt.Sprintf(fr.pat, at+q)
				var ro regexp2.RegexOptions
				if fr.rtl {
					ro = regexp2.RightToLeft
				}
				re, err := regexp2.Compile(pat, ro)
				if err != nil {
					continue
				}
				re.MatchTimeout = 200 * time.Millisecond
				var bad []string
				for ti, t := range texts {
					if !c.Thorough && ti%3 != c.Rng.Intn(3) {
						continue
					}
					for _, tail := range []string{"", "xxxxx"} {
						for _, head := range []string{"", "xx"} {
							in := append(append([]rune(head), t...), []rune(tail)...)
							for _, st := range []int{-1, len(head), len(head) + len(t)} {
								loopCalls++
								guarded(fmt.Sprintf("FindRunesMatchStartingAt(%q, %d)", string(in), st), &bad, false, func() error {
									var m *regexp2.Match
									var err error
									if st < 0 {
										m, err = re.FindRunesMatch(in)
									} else {
										m, err = re.FindRunesMatchStartingAt(in, st)
									}
									for k := 0; m != nil && err == nil && k < len(in)+2; k++ {
										m, err = re.FindNextMatch(m)
									}
									return err
								})
							}
						}
					}
					if len(bad) > 0 {
						break
					}
				}
				cs := &Case{Desc: fmt.Sprintf("loop-direction pattern %+q options=%#x", pat, int(ro)), Nontrivial: true, Key: pat + fmt.Sprint(ro), Class: "loop-direction"}
				if len(bad) > 0 {
					cs.Direct = strings.Join(bad, " | ")
				}
				c.Add(cs)
			}
		}
	}
	c.Gate("loop-direction stress ran", loopCalls > 50000)

	// balancing groups on every open/close sequence up to a bound, read back through every accessor: a pop is
	// recorded as a reference to an earlier capture and resolved when values are read; a chain of references
	// (sibling pairs nested in an open outer pair) must never turn into a text index
	balCalls := 0
	for _, bp := range []struct{ pat, alpha string }{
		{`^(?:(?<o>[a-c])|(?<-o>\.))+=\k<o>$`, "ab.="},
		{`^(?:(?<o><)|(?<c-o>>)|[^<>])*$`, "<>a"},
		{`(?:(?<o>a)|(?<c-o>b))+`, "ab"},
		{`(?:(?<o>a)|(?<c-o>b)|(?<d-c>x))+\k<d>?`, "abx"},
		{`(?:(?<o>a)|(?<-o>b))+(?(o)a|b)`, "ab"},
	} {
		for _, ro := range []regexp2.RegexOptions{0, regexp2.RightToLeft} {
			re, err := regexp2.Compile(bp.pat, ro)
			if err != nil {
				continue
			}
			re.MatchTimeout = 200 * time.Millisecond
			al := []rune(bp.alpha)
			maxLen := 6
			if len(al) > 3 {
				maxLen = 5
			}
			var bad []string
			var rec func(cur []rune)
			rec = func(cur []rune) {
				if len(bad) > 0 {
					return
				}
				if len(cur) > 0 {
					in := string(cur)
					balCalls++
					guarded(fmt.Sprintf("match+read(%q)", in), &bad, false, func() error {
						m, err := re.FindStringMatch(in)
						for k := 0; m != nil && err == nil && k < len(cur)+2; k++ {
							_ = m.String()
							for _, g := range m.Groups() {
								_ = g.String()
								g.ByteRange()
								for _, cp := range g.Captures {
									_ = cp.String()
									cp.ByteRange()
								}
							}
							m, err = re.FindNextMatch(m)
						}
						if err != nil {
							return err
						}
						if _, err := re.Replace(in, "[${o}$1$2$3]", -1, -1); err != nil {
							return err
						}
						if _, err := re.Split(in, -1); err != nil {
							return err
						}
						w := compat.Wrap(re)
						w.FindAllStringSubmatchIndex(in, -1)
						w.FindAllStringSubmatch(in, -1)
						return nil
					})
				}
				if len(cur) == maxLen {
					return
				}
				for _, ch := range al {
					rec(append(append([]rune{}, cur...), ch))
				}
			}
			rec(nil)
			cs := &Case{Desc: fmt.Sprintf("balancing pattern %+q options=%#x, every string over %q up to length %d", bp.pat, int(ro), bp.alpha, maxLen), Nontrivial: true, Key: bp.pat + fmt.Sprint(ro), Class: "balancing"}
			if len(bad) > 0 {
				cs.Direct = strings.Join(bad, " | ")
			}
			c.Add(cs)
		}
	}
	c.Gate("balancing stress ran", balCalls > 2000)

	// backtracking-stack growth INSIDE an atomic group, a lookaround or a conditional: the body really backtracks and
	// the text is long enough for the stack to be re-allocated while the saved position of the enclosing construct is
	// pending (a saved absolute index goes stale; the code keeps distances from the end)
	growCalls := 0
	for _, gp := range []struct {
		pat  string
		unit string
		tail []string
	}{
		{`(?>(?:\w\d|\w)*)\d!`, "a1", []string{"!", "", "x"}},
		{`(?!(?:\w\d|\w)*!)\w`, "a1", []string{"!", "", "?"}},
		{`(?=((?:\w\d|\w))*!)\w+x`, "a1", []string{"!", "!x", ""}},
		{`(?<=(?:\d\w|\w)*)!x`, "a1", []string{"!x", "!", ""}},
		{`(?(?=(?:\w\d|\w)*!)\w+!|\w)`, "a1", []string{"!", "", "?"}},
		{`(?>(?:ab?|a)*)b`, "ab", []string{"", "b", "c"}},
		{`x(?>(?:(a)|(b)|ab)*)c`, "ab", []string{"c", "", "d"}},
	} {
		for _, ro := range []regexp2.RegexOptions{0, regexp2.RightToLeft} {
			re, err := regexp2.Compile(gp.pat, ro)
			if err != nil {
				continue
			}
			re.MatchTimeout = 500 * time.Millisecond
			var bad []string
			for n := 1; n <= 48 && len(bad) == 0; n++ {
				if n > 24 && n%8 != 0 {
					continue
				}
				for _, tl := range gp.tail {
					in := strings.Repeat(gp.unit, n) + tl
					if ro != 0 {
						in = tl + strings.Repeat(gp.unit, n)
					}
					growCalls++
					// a FRESH Regexp for every text: a pooled runner keeps its grown stack, and it is the first growth
					// that has to happen inside the construct
					re, _ := regexp2.Compile(gp.pat, ro)
					re.MatchTimeout = 40 * time.Millisecond // (these bodies are exponential on the failing tails: a timeout ends the case)
					guarded(fmt.Sprintf("match(%q)", in), &bad, false, func() error {
						if _, err := re.MatchString(in); err != nil {
							return nil
						}
						re2, _ := regexp2.Compile(gp.pat, ro)
						re2.MatchTimeout = 40 * time.Millisecond
						m, err := re2.FindStringMatch("x" + in)
						for k := 0; m != nil && err == nil && k < 5; k++ {
							_ = m.String()
							m, err = re.FindNextMatch(m)
						}
						if err != nil {
							return nil // a timeout is not this section's subject
						}
						_, _ = re.Replace(in, "<$&>", -1, -1)
						_, _ = re.Split(in, -1)
						return nil
					})
				}
			}
			cs := &Case{Desc: fmt.Sprintf("stack growth inside a construct: pattern %+q options=%#x on %q x 1..24, 32, 40, 48 + tails %q", gp.pat, int(ro), gp.unit, gp.tail), Nontrivial: true, Key: "grow" + gp.pat + fmt.Sprint(ro), Class: "stack-growth"}
			if len(bad) > 0 {
				cs.Direct = strings.Join(bad, " | ")
			}
			c.Add(cs)
		}
	}
	c.Gate("stack-growth stress ran", growCalls > 500)

	// the adapter's methods on matches in which some group did not take part (index pair -1,-1): every method, every n
	for _, ap := range []string{`(a)|b`, `x(y)?z`, `(\d+)|([a-z]+)`, `(é)|.`, `(?:(a)|(b)|c)+`, `(a)?(b)?c`, `()|a`, `(?<n>a)?b\k<n>?`} {
		for _, ro := range []regexp2.RegexOptions{0, regexp2.RightToLeft, regexp2.RE2, regexp2.IgnoreCase | regexp2.ECMAScript} {
			re, err := regexp2.Compile(ap, ro)
			if err != nil {
				continue
			}
			re.MatchTimeout = 200 * time.Millisecond
			w := compat.Wrap(re)
			var bad []string
			for _, t := range []string{"ab", "xz xyz", "12 ab é", "", "cab", "\xffa", "bca"} {
				guarded(fmt.Sprintf("adapter methods on %q", t), &bad, false, func() error {
					b := []byte(t)
					w.Match(b)
					w.MatchString(t)
					w.MatchReader(strings.NewReader(t))
					w.Find(b)
					w.FindIndex(b)
					w.FindString(t)
					w.FindStringIndex(t)
					w.FindReaderIndex(strings.NewReader(t))
					w.FindSubmatch(b)
					w.FindSubmatchIndex(b)
					w.FindStringSubmatch(t)
					w.FindStringSubmatchIndex(t)
					w.FindReaderSubmatchIndex(strings.NewReader(t))
					for _, n := range []int{-1, 0, 1, 2, 5} {
						w.FindAll(b, n)
						w.FindAllIndex(b, n)
						w.FindAllString(t, n)
						w.FindAllStringIndex(t, n)
						w.FindAllSubmatch(b, n)
						w.FindAllSubmatchIndex(b, n)
						w.FindAllStringSubmatch(t, n)
						w.FindAllStringSubmatchIndex(t, n)
					}
					return nil
				})
			}
			cs := &Case{Desc: fmt.Sprintf("adapter: every method on pattern %+q options=%#x (groups that do not take part)", ap, int(ro)), Nontrivial: true, Key: "adapter" + ap + fmt.Sprint(ro), Class: "adapter-unset-groups"}
			if len(bad) > 0 {
				cs.Direct = strings.Join(bad, " | ")
			}
			c.Add(cs)
		}
	}

	// every truncation of every syntactic construct, at the end of a pattern, under every dialect: the pre-scan
	// (countCaptures) and the parser look ahead by fixed amounts and must find the end of the pattern first
	constructs := []string{`(?P<name>a)`, `(?<n-m>a)`, `(?'n'a)`, `(?P=name)`, `(?(1)a|b)`, `(?(name)a|b)`, `(?(?=a)b|c)`, `\k<name>`, `\k'n'`, `\k{n}`,
		`\p{Lu}`, `\P{IsGreek}`, `[[:alpha:]]`, `[a-z-[aeiou]]`, `[^\]a-]`, `(?#comment)`, `\x{10FFFF}`, `\x41`, `\u0041`, `\u{1F600}`, `\cA`, `a{1,3}?`, `a{2,}+`,
		`(?imnsx-imnsx:a)`, `(?i)`, `(?>a)`, `(?<=a)`, `(?<!a)`, `(?=a)`, `(?!a)`, `\123`, `\0`, `\Qa.b\E`, `\G\A\z\Z\b\B`, `(?<1>a)\1`, `#c\n`, `\ `, `a|`, `(|)`, `(?<a\u0041>x)`, `(?'\u0041b'x)`, `\k<a\u0041>`, `(?<\u{41}>x)`, `(?<n>a)\k<\u006e>`}
	bases := []string{"", "a", "(a)", "(?<name>x)(?<n>y)(?<m>z)", "\xff"}
	dialects := []regexp2.RegexOptions{0, regexp2.RE2, regexp2.ECMAScript, regexp2.ECMAScript | regexp2.Unicode, regexp2.RE2 | regexp2.IgnoreCase,
		regexp2.ExplicitCapture, regexp2.IgnorePatternWhitespace, regexp2.RightToLeft, regexp2.IgnorePatternWhitespace | regexp2.RE2}
	truncs := 0
	for _, cons := range constructs {
		cr := []rune(cons)
		var bad []string
		for k := 0; k <= len(cr); k++ {
			for _, b := range bases {
				pat := b + string(cr[:k])
				for _, ro := range dialects {
					for _, mco := range []bool{false, true} {
						truncs++
						opts := []regexp2.CompileOption{ro}
						if mco {
							opts = append(opts, regexp2.OptionMaintainCaptureOrder())
						}
						guarded(fmt.Sprintf("Compile(%+q, %#x, mco=%v)", pat, int(ro), mco), &bad, false, func() error {
							re, err := regexp2.Compile(pat, opts...)
							if err != nil {
								var se *syntax.Error
								if !errors.As(err, &se) && !strings.Contains(err.Error(), "error parsing regexp") {
									return fmt.Errorf("Compile returned a non-parse error: %w", err)
								}
								return nil
							}
							re.MatchTimeout = 100 * time.Millisecond
							_, err = re.MatchString("axyz a1\n")
							return err
						})
					}
				}
			}
		}
		cs := &Case{Desc: fmt.Sprintf("every truncation of %+q after %d bases under %d dialects", cons, len(bases), len(dialects)), Nontrivial: true, Key: "trunc" + cons, Class: "truncation"}
		if len(bad) > 0 {
			if len(bad) > 4 {
				bad = bad[:4]
			}
			cs.Direct = strings.Join(bad, " | ")
		}
		c.Add(cs)
	}
	// every truncation of every replacement construct, under every dialect: NewReplacerData returns data or a documented
	// error, Replace returns
	for _, cons := range []string{`${n\u0041}`, `${\u{6e}}`, `${name}`, `$10`, `${1}`, `$&$`+"`"+`$'$+$_$$`, `${2147483648}`, `$99999999999`} {
		cr := []rune(cons)
		var bad []string
		for k := 0; k <= len(cr); k++ {
			for _, pre := range []string{"", "x", "$"} {
				repl := pre + string(cr[:k])
				for _, ro := range dialects {
					truncs++
					guarded(fmt.Sprintf("Replace(%+q) under %#x", repl, int(ro)), &bad, false, func() error {
						re, err := regexp2.Compile(`(?<n>a)(?<name>x)?`, ro)
						if err != nil {
							return nil
						}
						re.MatchTimeout = 100 * time.Millisecond
						if _, err := re.Replace("axyz a1", repl, -1, -1); err != nil && !strings.Contains(err.Error(), "out of range") {
							return fmt.Errorf("Replace returned an undocumented error: %w", err)
						}
						_, err = re.Replace("axyz a1", repl, 2, 1)
						if err != nil && strings.Contains(err.Error(), "out of range") {
							return nil
						}
						return err
					})
				}
			}
		}
		cs := &Case{Desc: fmt.Sprintf("every truncation of the replacement %+q under %d dialects", cons, len(dialects)), Nontrivial: true, Key: "rtrunc" + cons, Class: "truncation"}
		if len(bad) > 0 {
			if len(bad) > 4 {
				bad = bad[:4]
			}
			cs.Direct = strings.Join(bad, " | ")
		}
		c.Add(cs)
	}
	// every prefix and every suffix of a matching text, for patterns of each candidate-finder mode: a finder that probes
	// the character after / before what it found must find the end of the input first
	cutCalls := 0
	for _, pt := range []struct{ pat, text string }{
		{`\w+\s+at\s+\w+\s+dot\s+com`, "user at example dot com"}, {`[a-z]*(\s+[ab]{1,2}\s+)[a-z]*(\s+cd)`, "xxxx ab yy cd"},
		{`[ae]*(?:\s*x| )b[cd]`, "a\t xbc"}, {`[xy]*(?:[a ]{1,3}\s+|q)b(d)`, "a  bd"}, {`\w*@\w+\.com`, "me@host.com"}, {`\s*=\s*\d+;`, "  = 42;"},
		{`..abc`, "xyabc"}, {`[ab].[cd]e`, "axce"}, {`(?i)hello\d`, "HeLLo7"}, {`(?:abc|abd|xyz)\d`, "xyz1"}, {`a{3}b`, "aaab"}, {`\d+-\d+-\d+`, "12-34-56"},
	} {
		for _, ro := range []regexp2.RegexOptions{0, regexp2.RightToLeft, regexp2.IgnoreCase} {
			re, err := regexp2.Compile(pt.pat, ro)
			if err != nil {
				continue
			}
			re.MatchTimeout = 200 * time.Millisecond
			var bad []string
			rs := []rune(pt.text)
			for cut := 0; cut <= len(rs) && len(bad) == 0; cut++ {
				for _, in := range []string{string(rs[:cut]), string(rs[cut:]), string(rs[:cut]) + string(rs[:cut])} {
					cutCalls++
					guarded(fmt.Sprintf("all methods on %q", in), &bad, false, func() error {
						if _, err := re.MatchString(in); err != nil {
							return err
						}
						m, err := re.FindStringMatch(in)
						for k := 0; m != nil && err == nil && k < len(in)+2; k++ {
							m, err = re.FindNextMatch(m)
						}
						if err != nil {
							return err
						}
						if _, err := re.FindAllStringIndex(in, -1); err != nil {
							return err
						}
						if _, err := re.Replace(in, "<$0>", -1, -1); err != nil {
							return err
						}
						_, err = re.Split(in, -1)
						return err
					})
				}
			}
			cs := &Case{Desc: fmt.Sprintf("every prefix and suffix of %q for pattern %+q options=%#x", pt.text, pt.pat, int(ro)), Nontrivial: true, Key: pt.pat + fmt.Sprint(ro), Class: "cut-text"}
			if len(bad) > 0 {
				cs.Direct = strings.Join(bad, " | ")
			}
			c.Add(cs)
		}
	}
	c.Gate("cut-text sweep ran", cutCalls > 500)
	c.Gate("truncation sweep ran", truncs > 10000)
}
