package main

// C12 — results are independent of call history (DESIGN §4 C12, leg L-hist).
//
//  c12-hist   histories of calls on 6 shared Regexps.  DIRECT: every step's full result equals the result of
//             the same call on a freshly compiled Regexp; every runner seen in the pool satisfies runner_ok;
//             every scan starts on reset stacks with the expected program.  MODEL (leg 1201): the pool/cache
//             model of coq/Model/Pool.v replayed on the same history (interpreter outcomes shipped as oracle
//             rows computed on fresh Regexps) reproduces the result summary of every step AND the observable
//             bookkeeping: cache order, state of the runner just pooled, head of every buffer size class.
//  c12-index  pool_index of bufferpool.go against the model's (leg 1202) on random (needed, max) pairs.

import (
	"sync"
	"flag"
	"fmt"
	"os"
	"runtime"
	"runtime/debug"
	"sort"
	"strings"
	"sync/atomic"
	"time"
	"unicode/utf8"

	"github.com/dlclark/regexp2/v2"
)

func init() {
	registerLeg("c12-hist", "C12", legC12Hist)
	registerLeg("c12-index", "C12", legC12Index)
}

// ---------- the shared Regexps ----------

type c12Spec struct {
	name    string
	pat     string
	opts    []regexp2.CompileOption
	timeout time.Duration
	rtl     bool
}

func c12Specs() []c12Spec {
	return []c12Spec{
		{name: "balancing", pat: `(?:(?<o>\()|(?<-o>\))|[a-z])+`},
		{name: "boolonly", pat: `(a|b)+c(\d*)`},
		{name: "stacklimit", pat: `(?:ab?)*c`, opts: []regexp2.CompileOption{regexp2.OptionMaxBacktrackingStackSize(65)}},
		{name: "timeout", pat: `(a+)+!$`, timeout: 8 * time.Millisecond},
		{name: "stacklimit-groups", pat: `^(?:(a)|b)*c`, opts: []regexp2.CompileOption{regexp2.OptionMaxBacktrackingStackSize(129)}},
		{name: "timeout-groups", pat: `^(?:(a+)+|b)*c`, timeout: 8 * time.Millisecond},
		{name: "rtl", pat: `\d+[a-z]`, opts: []regexp2.CompileOption{regexp2.RightToLeft}, rtl: true},
		{name: "named-smallcache", pat: `(?<word>[a-z]+) (?<n>\d+)`, opts: []regexp2.CompileOption{
			regexp2.OptionMaxCachedReplacerDataEntries(4), regexp2.OptionMaxCachedReplacerDataBytes(8),
			regexp2.OptionMaxCachedRuneBufferLength(4096), regexp2.OptionMaxCachedReplaceBufferLength(4096)}},
		{name: "timeout-iter", pat: `(a+)+!$|\d+`, timeout: 8 * time.Millisecond},
		// a limit below four times the program's TrackCount: every call must fail the same way, the first one on a new
		// runner included (the storage check that refuses it runs before the first instruction)
		{name: "stacklimit-tiny", pat: `(a)|b`, opts: []regexp2.CompileOption{regexp2.OptionMaxBacktrackingStackSize(32)}},
		{name: "nobitmap", pat: `[a-cx-z]+[\d_ ]`, opts: []regexp2.CompileOption{regexp2.OptionDisableCharClassASCIIBitmap()}},
	}
}

func (s c12Spec) compile() *regexp2.Regexp {
	re := regexp2.MustCompile(s.pat, s.opts...)
	if s.timeout != 0 {
		re.MatchTimeout = s.timeout
	}
	return re
}

// fragments the patterns react to; the filler '.' matches nothing
var c12Frags = []string{"abc12", "(ab)", "((x)y)", "bac", "ab ab c", "hello 42", "7x", "123z", "aab", "c", "ababababababababababababababc",
	"abababababababababababababababababababababababc", "x 1", "é", "éé 9q", "()", "aaaa!", "ab", "q 77 r 8", "bbc", "bc", "bbbbc", "aaaaaaaaaaaaaaaaaaaaaaaaaaaaaaaaaaaaaaaaaaaaaaaaaaaaaaaaaaaaaaaaaaaaaaaaaaaaaaaaaaaaaaaac", "aaaaaaaaaaaaaaaaaaaaaaaaaaaaaaaab"}

const c12Catastrophic = "aaaaaaaaaaaaaaaaaaaaaaaaaaaaaaaaaaaaaa!x"

// a text on which the timed patterns ((a+)+!$ and ^(?:(a+)+|b)*c) may need exponential time: any long run of 'a'
func c12IsCatastrophic(text string) bool {
	return text == c12Catastrophic || strings.Contains(text, "aaaaaaaaaaaaaaaa")
}

// a deep-backtracking text: linear work, but enough of it that an 8 ms deadline may or may not fire: never
// given to the timed patterns
func c12IsDeep(text string) bool {
	return len(text) > 8000 && strings.HasPrefix(text, "abab")
}

// a text from the list that is not catastrophic (the empty text if there is none)
func c12Calm(r *Rng, texts []string) string {
	for try := 0; try < 50; try++ {
		if t := texts[r.Intn(len(texts))]; !c12IsCatastrophic(t) && !c12IsDeep(t) {
			return t
		}
	}
	return ""
}

func c12Text(r *Rng) string {
	var n int
	switch k := r.Intn(100); {
	case k < 8:
		n = 0
	case k < 62:
		n = r.Intn(60)
	case k < 74:
		n = 990 + r.Intn(60) // around the 1K class boundary (1024)
	case k < 84:
		n = 4060 + r.Intn(60) // 4096
	case k < 90:
		n = 16350 + r.Intn(60) // 16384
	case k < 93:
		n = 17000 + r.Intn(2000)
	default:
		n = 100 + r.Intn(800)
	}
	if r.Chance(4) {
		// deep backtracking state: thousands of loop iterations leave the runner's stacks grown far beyond their
		// initial size (what a pooled runner carries over to the next call)
		// (always closed by the c the loop patterns look for: without it their scan is quadratic in the length)
		return strings.Repeat("ab", 4700+r.Intn(600)) + Pick(r, []string{"c", "c7", "c(", "c.ab"})
	}
	var sb strings.Builder
	nf := r.Intn(9)
	if r.Chance(25) {
		nf += 10 + r.Intn(25)
	}
	for sb.Len() < n {
		if nf > 0 && r.Intn(1+n/8) < 2 {
			sb.WriteString(Pick(r, c12Frags))
			nf--
		} else {
			sb.WriteByte('.')
		}
	}
	for ; nf > 0 && n > 0 && r.Bool(); nf-- {
		sb.WriteString(Pick(r, c12Frags))
	}
	return sb.String()
}

func c12Repls() []string {
	var out []string
	for i := 0; i < 40; i++ {
		switch i % 5 {
		case 0:
			out = append(out, fmt.Sprintf("\x01%d", i))
		case 1:
			out = append(out, fmt.Sprintf("\x01<$0:%d>", i))
		case 2:
			out = append(out, fmt.Sprintf("\x01${word}-%d-${n}", i))
		case 3:
			out = append(out, fmt.Sprintf("\x01$1$2[%d]$`", i))
		default:
			out = append(out, fmt.Sprintf("\x01%d$$", i))
		}
	}
	return out
}

// ---------- canonical full results (DIRECT comparison) ----------

func c12CanonMatch(m *regexp2.Match) string {
	if m == nil {
		return "nil"
	}
	var sb strings.Builder
	fmt.Fprintf(&sb, "M[%d+%d tp=%d", m.RuneIndex, m.RuneLength, m.VerifTextpos())
	for _, g := range m.Groups() {
		fmt.Fprintf(&sb, " %s:", g.Name)
		for _, c := range g.Captures {
			bi, bl := c.ByteRange()
			fmt.Fprintf(&sb, "(%d,%d|%d,%d)%q", c.RuneIndex, c.RuneLength, bi, bl, c.String())
		}
	}
	sb.WriteString("]")
	return sb.String()
}

func c12ErrCode(err error) int64 {
	switch {
	case err == regexp2.ErrBacktrackingStackLimit:
		return 1
	case strings.HasPrefix(err.Error(), "match timeout"):
		return 2
	case strings.HasPrefix(err.Error(), "startAt must be less"):
		return 3
	case strings.HasPrefix(err.Error(), "startAt must align"):
		return 4
	case strings.HasPrefix(err.Error(), "count too small"):
		return 5
	}
	return 99
}

// one step of a history, as plain data
type c12Step struct {
	op      int // opcodes of Drv12.step_op
	re      int
	text    string
	startAt int
	count   int // n for FindAll, count for Replace/Split
	repl    int // index into repls
	prev    *regexp2.Match
	prevTxt string
}

type c12Out struct {
	canon   string  // full canonical result
	summary []int64 // the model's e_result encoding
	m       *regexp2.Match
}

func c12ErrOut(err error) c12Out {
	code := c12ErrCode(err)
	msg := err.Error()
	if code == 2 && len(msg) > 60 {
		msg = msg[:60]
	}
	return c12Out{canon: "ERR " + msg, summary: []int64{9, code}}
}

func c12MatchOut(m *regexp2.Match, err error) c12Out {
	if err != nil {
		return c12ErrOut(err)
	}
	o := c12Out{canon: c12CanonMatch(m), m: m}
	if m == nil {
		o.summary = []int64{1, 0}
	} else {
		o.summary = []int64{1, 1, int64(m.RuneIndex), int64(m.RuneLength)}
	}
	return o
}

func c12BoolOut(b bool, err error) c12Out {
	if err != nil {
		return c12ErrOut(err)
	}
	return c12Out{canon: fmt.Sprint(b), summary: []int64{0, b2i(b)}}
}

// execute one step on re; a panic is a result too
func c12Exec(re *regexp2.Regexp, st *c12Step, repls []string, ngroups int) (out c12Out) {
	defer func() {
		if p := recover(); p != nil {
			out = c12Out{canon: fmt.Sprintf("PANIC %v", p), summary: []int64{8, 1}}
		}
	}()
	switch st.op {
	case 1:
		return c12BoolOut(re.MatchString(st.text))
	case 2:
		return c12BoolOut(re.MatchRunes([]rune(st.text)))
	case 3:
		return c12MatchOut(re.FindStringMatch(st.text))
	case 4:
		return c12MatchOut(re.FindRunesMatch([]rune(st.text)))
	case 5:
		return c12MatchOut(re.FindNextMatch(st.prev))
	case 6, 7:
		var idx [][]int
		var err error
		if st.op == 6 {
			idx, err = re.FindAllStringIndex(st.text, st.count)
		} else {
			idx, err = re.FindAllRunesIndex([]rune(st.text), st.count)
		}
		if err != nil {
			return c12ErrOut(err)
		}
		o := c12Out{canon: fmt.Sprint(idx), summary: []int64{2, int64(len(idx))}}
		for _, p := range idx {
			a, b := p[0], p[1]
			if st.op == 6 { // byte -> rune indexes
				a, b = utf8.RuneCountInString(st.text[:a]), utf8.RuneCountInString(st.text[:b])
			}
			o.summary = append(o.summary, int64(a), int64(b))
		}
		return o
	case 8:
		s, err := re.Replace(st.text, repls[st.repl], st.startAt, st.count)
		if err != nil {
			return c12ErrOut(err)
		}
		k := int64(strings.Count(s, "\x01"))
		if k == 0 {
			k = -1
		}
		return c12Out{canon: s, summary: []int64{3, k}}
	case 9:
		calls := int64(0)
		s, err := re.ReplaceFunc(st.text, func(m regexp2.Match) string {
			calls++
			return fmt.Sprintf("<%d:%d>", m.RuneIndex, m.GroupCount())
		}, st.startAt, st.count)
		if err != nil {
			return c12ErrOut(err)
		}
		if calls == 0 {
			calls = -1
		}
		return c12Out{canon: s, summary: []int64{3, calls}}
	case 10:
		parts, err := re.Split(st.text, st.count)
		if err != nil {
			return c12ErrOut(err)
		}
		k := int64(-1)
		if parts == nil {
			k = -2
		} else if len(parts) > 1 {
			k = int64((len(parts) - 1) / ngroups)
		}
		return c12Out{canon: fmt.Sprintf("%q", parts), summary: []int64{4, k}}
	case 11:
		return c12MatchOut(re.FindStringMatchStartingAt(st.text, st.startAt))
	}
	return c12Out{canon: "?"}
}

// rune index of byte offset b in s (-1: not at a rune start), as decodeStringWithStart computes it
func c12RuneStart(s string, b int) int {
	if b < 0 {
		return -1
	}
	n := 0
	for i := range s {
		if i == b {
			return n
		}
		n++
	}
	if b == len(s) {
		return n
	}
	return -1
}

// ---------- the leg ----------

type c12Shared struct {
	spec    c12Spec
	re      *regexp2.Regexp
	hasQ    bool
	ngroups int
	events  []regexp2.VerifScanStart
}

// the rune/byte buffer pools are process-wide and leg c12-hist observes them: the C12 legs take turns
var c12PoolMu sync.Mutex

func legC12Hist(c *Ctx) {
	c12PoolMu.Lock()
	defer c12PoolMu.Unlock()
	c.Rule("histories of 8..40 (quick) / 8..400 (thorough) calls over 10 shared Regexps (balancing groups, bool-only-eligible captures, stack limits 65 and 129, three catastrophic patterns with an 8 ms timeout one of which also matches digit runs so that iterations continue under a deadline - a call on a benign text reporting a timeout after less than half its budget, while the process' own ticker shows no scheduling stall, is a violation -, RightToLeft, named groups with a 4-entry cache and 4K buffer caps, classes without ASCII bitmaps); inputs of 0..60, ~1K, ~4K, ~16K and >16K bytes crossing the rune-buffer classes, some non-ASCII; 40 replacement strings; ops: MatchString, MatchRunes, FindStringMatch[StartingAt], FindRunesMatch, FindNextMatch, FindAllStringIndex, FindAllRunesIndex, Replace, ReplaceFunc, Split; pooled buffers are poisoned between steps; non-trivial = a step whose runner or buffer was recycled (distinct by history,step)")
	regexp2.SetTimeoutCheckPeriod(time.Millisecond)
	specs := c12Specs()
	smallCache := 0
	for i, sp := range specs {
		if sp.name == "named-smallcache" {
			smallCache = i
		}
	}
	repls := c12Repls()
	nh := c.N(600, 1500)
	maxLen := c.N(40, 400)
	runeSizes, byteSizes := regexp2.VerifRuneClassSizes(), regexp2.VerifByteClassSizes()
	gates := map[string]int{}
	// the global buffer pools are observable only when no other leg of this process uses the library concurrently
	observeBufs := true
	if f := flag.Lookup("legs"); f != nil {
		for _, l := range strings.Split(f.Value.String(), ",") {
			if l != "" && !strings.HasPrefix(l, "c12-") {
				observeBufs = false
			}
		}
	}
	old := debug.SetGCPercent(-1) // pools must not be emptied behind the model's back; a memory limit still bounds the heap
	oldLimit := debug.SetMemoryLimit(3 << 30)
	defer debug.SetGCPercent(old)
	defer debug.SetMemoryLimit(oldLimit)
	// a call that never returns (e.g. a stale capture count making FindAll loop) must not hang the check
	var current atomic.Value
	current.Store("")
	var beat atomic.Int64
	stopDog := make(chan struct{})
	defer close(stopDog)
	go func() {
		last, since := int64(-1), time.Now()
		for {
			select {
			case <-stopDog:
				return
			case <-time.After(time.Second):
			}
			var msst runtime.MemStats
			runtime.ReadMemStats(&msst)
			if msst.HeapAlloc > 6<<30 {
				fmt.Fprintf(os.Stderr, "c12-hist: a call allocates without bound (history-dependent loop?): %v\n", current.Load())
				os.Exit(3)
			}
			if b := beat.Load(); b != last {
				last, since = b, time.Now()
			} else if time.Since(since) > 90*time.Second {
				fmt.Fprintf(os.Stderr, "c12-hist: a call did not return within 90s (history-dependent hang?): %v\n", current.Load())
				os.Exit(3)
			}
		}
	}()

	// a ticker of this process as a witness of scheduling stalls (the library's timeout clock is a ticking goroutine too)
	var lagAt, beatAt atomic.Int64
	beatAt.Store(time.Now().UnixNano())
	go func() {
		for {
			select {
			case <-stopDog:
				return
			default:
			}
			t0 := time.Now()
			time.Sleep(500 * time.Microsecond)
			now := time.Now()
			if now.Sub(t0) > 2500*time.Microsecond {
				lagAt.Store(now.UnixNano())
			}
			beatAt.Store(now.UnixNano())
		}
	}()
	lagFree := func() bool {
		now := time.Now().UnixNano()
		return now-lagAt.Load() > int64(100*time.Millisecond) && now-beatAt.Load() < int64(3*time.Millisecond)
	}

	// the fixed regression witness of the repaired ensureStorage defect (/repo 0ad14dc)
	{
		re := specs[2].compile()
		in := []rune(strings.Repeat("ab", 13) + "c")
		a, ea := re.MatchRunes(in)
		b, eb := re.MatchRunes(in)
		cs := &Case{Desc: "regression: `(?:ab?)*c` limit 65, MatchRunes(\"ab\"x13+\"c\") twice on one Regexp", Nontrivial: true, Class: "regression"}
		if a != b || (ea == nil) != (eb == nil) {
			cs.Direct = fmt.Sprintf("first call (%v,%v), second call (%v,%v): the recycled runner's track length leaks into the result", a, ea, b, eb)
		}
		c.Add(cs)
	}

	for h := 0; h < nh; h++ {
		rng := c.Rng.Fork()
		runtime.GC()
		runtime.GC() // two cycles empty every sync.Pool
		sh := make([]*c12Shared, len(specs))
		for i, sp := range specs {
			s := &c12Shared{spec: sp, re: sp.compile()}
			s.hasQ = s.re.VerifQuickCode() != nil
			s.ngroups = len(s.re.GetGroupNumbers())
			ss := s
			s.re.VerifOnScan(func(e regexp2.VerifScanStart) { ss.events = append(ss.events, e) })
			sh[i] = s
		}
		replaceHeavy := h%4 == 1 // many distinct replacements on two Regexps: the 4- and 16-entry caches overflow
		hlen := 8 + rng.Intn(maxLen-7)
		if replaceHeavy && hlen < 36 {
			hlen = 36
		}
		if h%10 == 0 {
			hlen = maxLen
		}
		texts := make([]string, 3+rng.Intn(6))
		for i := range texts {
			texts[i] = c12Text(rng)
		}
		if rng.Chance(70) {
			texts[0] = c12Catastrophic
		}
		tokens := map[string]int64{"": 0}
		tok := func(s string) int64 {
			if t, ok := tokens[s]; ok {
				return t
			}
			t := int64(len(tokens))
			tokens[s] = t
			return t
		}
		lastM := make([]*regexp2.Match, len(specs))
		lastT := make([]string, len(specs))
		steps := make([]*c12Step, 0, hlen)
		outs := make([]c12Out, 0, hlen)
		books := make([][]int64, 0, hlen)
		masks := make([]int64, 0, hlen)
		usedQuick := make([]int, 0, hlen) // -1 unknown, 0 full, 1 quick (observed)
		var direct []string
		fail := func(i int, st *c12Step, f string, a ...any) {
			if len(direct) < 3 {
				direct = append(direct, fmt.Sprintf("step %d %s: %s", i, c12StepDesc(st, specs, repls), fmt.Sprintf(f, a...)))
			}
		}
		recycled := 0
		byteDirty := false // a replace buffer outgrew its class (bytes.Buffer's growth policy is not modelled): stop observing the byte pools

		// ---- phase 1: the history on the shared Regexps, nothing else touches the pools ----
		for i := 0; i < hlen; i++ {
			st := &c12Step{re: rng.Intn(len(specs)), text: Pick(rng, texts), startAt: -1, count: -1}
			if rng.Chance(15) {
				st.text = c12Text(rng)
				texts[rng.Intn(len(texts))] = st.text
			}
			st.op = 1 + rng.Intn(11)
			if replaceHeavy && rng.Chance(75) {
				st.op = 8
				st.re = Pick(rng, []int{smallCache, smallCache, 1})
			}
			if specs[st.re].timeout != 0 && c12IsDeep(st.text) {
				st.text = c12Calm(rng, texts)
			}
			if specs[st.re].timeout != 0 && c12IsCatastrophic(st.text) && st.op >= 8 {
				st.op = 1 + rng.Intn(7) // keep the timed-out calls single-scan (cost)
			}
			if st.op == 10 && specs[st.re].rtl {
				st.op = 9 // Split on right-to-left patterns is another property's business
			}
			switch st.op {
			case 5:
				st.prev, st.prevTxt = lastM[st.re], lastT[st.re]
				st.text = st.prevTxt
			case 6, 7:
				st.count = Pick(rng, []int{-1, -1, -1, 0, 1, 2, 3, 50})
			case 8, 9:
				st.repl = rng.Intn(len(repls))
				st.count = Pick(rng, []int{-1, -1, -1, 0, 1, 2, -2, 7})
				switch rng.Intn(6) {
				case 0:
					st.startAt = rng.Intn(len(st.text) + 3)
				case 1:
					st.startAt = 0
				case 2:
					st.startAt = len(st.text)
				}
			case 10:
				st.count = Pick(rng, []int{-1, -1, -1, 0, 1, 2, 3, -3})
			case 11:
				st.startAt = Pick(rng, []int{-1, 0, len(st.text), len(st.text) + 1, rng.Intn(len(st.text) + 1)})
			}
			s := sh[st.re]
			s.events = s.events[:0]
			before := s.re.VerifPoolPeek()
			current.Store(fmt.Sprintf("history #%d step %d %s", h, i, c12StepDesc(st, specs, repls)))
			beat.Add(1)
			t0 := time.Now()
			out := c12Exec(s.re, st, repls, s.ngroups)
			if el := time.Since(t0); s.spec.timeout != 0 && strings.HasPrefix(out.canon, "ERR match timeout") && !c12IsCatastrophic(st.text) && el < s.spec.timeout/2 {
				// a call on a benign text that ran for less than half its budget cannot have used it up; the library's
				// clock is a goroutine that ticks, so the rule is applied only while this process' own ticker shows no stall
				if lagFree() {
					fail(i, st, "reported a match timeout after %v on a benign text although MatchTimeout is %v (a deadline left behind by an earlier call?)", el, s.spec.timeout)
				} else {
					gates["early-timeout-under-lag"]++
				}
			}
			if st.op == 8 {
				if bi := regexp2.VerifBytePoolIndex(len(st.text), s.re.VerifPoolConfig().MaxCachedReplaceBufferLength); bi >= 0 {
					if out.summary[0] == 8 || (out.summary[0] == 9 && out.summary[1] <= 2) || (out.summary[0] == 3 && len(out.canon) > byteSizes[bi]) {
						byteDirty = true
						gates["byte-buffer-outgrown"]++
					}
				}
			}
			steps, outs = append(steps, st), append(outs, out)
			gates[fmt.Sprintf("op%d", st.op)]++
			gates["res"+fmt.Sprint(out.summary[0])]++
			if out.summary[0] == 9 {
				gates[fmt.Sprintf("err%d", out.summary[1])]++
			}
			if out.m != nil {
				lastM[st.re], lastT[st.re] = out.m, st.text
			}
			// every scan of this step started on reset stacks, with a text, with one program
			uq := -1
			var runnerID uintptr
			for _, e := range s.events {
				q := 0
				if e.Runner.CodeIsQuick {
					q = 1
				} else if !e.Runner.CodeIsFull {
					fail(i, st, "a scan ran with a program that is neither re.code nor re.quickCode")
				}
				if uq >= 0 && uq != q {
					fail(i, st, "the scans of one call used different programs")
				}
				uq = q
				runnerID = e.Runner.ID
				if e.TrackDepth != 0 || e.StackDepth != 0 || e.CrawlDepth != 0 || e.Runner.TextNil || e.Runner.MatchNil {
					fail(i, st, "an attempt started on a runner that was not reset: depths %d/%d/%d textnil=%v matchnil=%v",
						e.TrackDepth, e.StackDepth, e.CrawlDepth, e.Runner.TextNil, e.Runner.MatchNil)
				}
			}
			usedQuick = append(usedQuick, uq)
			if len(s.events) > 0 && before.ID == runnerID && !before.TrackNil {
				recycled++
				gates["recycled-runner"]++
			}
			// what sits in the pools now
			after := s.re.VerifPoolPeek()
			c12CheckRunnerOK(after, s, func(f string, a ...any) { fail(i, st, f, a...) })
			mask := int64(0)
			book := []int64{}
			keys := s.re.VerifCacheKeys()
			book = append(book, int64(len(keys)))
			for _, k := range keys {
				id := int64(-1)
				for j, r := range repls {
					if r == k {
						id = int64(j + 1)
					}
				}
				book = append(book, id)
			}
			if len(keys) > 0 {
				gates["cache-nonempty"]++
			}
			if st.op == 8 && len(keys) > 0 && len(keys) == s.re.VerifPoolConfig().MaxCachedReplacerDataEntries {
				gates["cache-full"]++
			}
			if len(s.events) > 0 && after.ID == runnerID {
				mask |= 1
				book = append(book, b2i(!after.MatchNil), b2i(after.CodeIsFull), b2i(after.TextNil))
			} else {
				book = append(book, -9, -9, -9)
			}
			book = append(book, int64(len(runeSizes)))
			for k := range runeSizes {
				if cp, _, ok := regexp2.VerifRuneBufPeek(k); ok && observeBufs {
					if cp != runeSizes[k] {
						fail(i, st, "rune buffer of capacity %d filed under size class %d", cp, runeSizes[k])
					}
					mask |= 1 << (8 + k)
					book = append(book, int64(cp))
					gates[fmt.Sprintf("rune-class%d", k)]++
					if rng.Chance(50) {
						regexp2.VerifRuneBufStale(k, Pick(rng, []rune{'a', 'b', 'c', '(', '7', '!'}))
					}
				} else {
					book = append(book, -9)
				}
			}
			book = append(book, int64(len(byteSizes)))
			for k := range byteSizes {
				cpb, _, okb := regexp2.VerifByteBufPeek(k)
				if okb && cpb != byteSizes[k] {
					fail(i, st, "replace buffer of capacity %d filed under size class %d", cpb, byteSizes[k])
				}
				if cp, ok := cpb, okb; ok && !byteDirty && observeBufs {
					mask |= 1 << (16 + k)
					book = append(book, int64(cp))
					gates[fmt.Sprintf("byte-class%d", k)]++
				} else {
					book = append(book, -9)
				}
			}
			books, masks = append(books, book), append(masks, mask)
		}

		// ---- phase 2: the same calls on freshly compiled Regexps, and the interpreter oracle ----
		var rows [][]int64
		rowSeen := map[string][]int64{}
		addRow := func(r []int64) {
			k := fmtInts(r[:6])
			if old, ok := rowSeen[k]; ok {
				if !eqInts(old, r) && len(direct) < 3 {
					direct = append(direct, fmt.Sprintf("two fresh evaluations of the same scan disagree: %v vs %v", old, r))
				}
				return
			}
			rowSeen[k] = r
			rows = append(rows, r)
		}
		var msteps [][]int64
		noModel := false // a spurious wall-clock timeout inside the history: its bookkeeping cannot be predicted
		for i, st := range steps {
			s := sh[st.re]
			fresh := s.spec.compile()
			current.Store(fmt.Sprintf("history #%d step %d (fresh Regexp) %s", h, i, c12StepDesc(st, specs, repls)))
			beat.Add(1)
			t0 := time.Now()
			fo := c12Exec(fresh, st, repls, s.ngroups)
			if el := time.Since(t0); s.spec.timeout != 0 && strings.HasPrefix(fo.canon, "ERR match timeout") && !c12IsCatastrophic(st.text) && el < s.spec.timeout/2 && lagFree() {
				// the same rule on the fresh side, where the call can be repeated: only a timeout that comes back early
				// on two more freshly compiled Regexps is reported
				again := 0
				for try := 0; try < 2; try++ {
					t1 := time.Now()
					r2 := c12Exec(s.spec.compile(), st, repls, s.ngroups)
					if strings.HasPrefix(r2.canon, "ERR match timeout") && time.Since(t1) < s.spec.timeout/2 {
						again++
					}
				}
				if again == 2 {
					fail(i, st, "on a freshly compiled Regexp the call reported a match timeout after %v on a benign text although MatchTimeout is %v (three times in a row)", el, s.spec.timeout)
				} else {
					gates["early-timeout-under-lag"]++
				}
			}
			if fo.canon != outs[i].canon && s.spec.timeout != 0 && !c12IsCatastrophic(st.text) &&
				(strings.HasPrefix(fo.canon, "ERR match timeout") != strings.HasPrefix(outs[i].canon, "ERR match timeout")) {
				// a wall-clock deadline fired on one side for an input that is not catastrophic (loaded machine):
				// compare the side that did not time out with the deadline-free result instead
				nt := s.spec.compile()
				nt.MatchTimeout = regexp2.DefaultMatchTimeout
				ref := c12Exec(nt, st, repls, s.ngroups).canon
				gates["spurious-timeout"]++
				if strings.HasPrefix(fo.canon, "ERR match timeout") {
					fo.canon = ref
				} else if outs[i].canon == ref {
					fo.canon = outs[i].canon
				}
				if strings.HasPrefix(outs[i].canon, "ERR match timeout") {
					fo.canon = outs[i].canon // the history's own timeout is wall-clock, not state: accept
					noModel = true
				}
			}
			if fo.canon != outs[i].canon {
				fail(i, st, "in the history the call returned %.300s; on a freshly compiled Regexp it returns %.300s", outs[i].canon, fo.canon)
			}
			msteps = append(msteps, c12ModelStep(st, s, tok, masks[i], usedQuick[i], addRow, &direct))
		}

		// ---- the case ----
		var in []int64
		in = append(in, int64(len(sh)))
		for _, s := range sh {
			o := s.re.VerifPoolConfig()
			tf, tq := s.re.VerifTrackCounts()
			if tq < 0 {
				tq = tf
			} else if tq != tf {
				direct = append(direct, fmt.Sprintf("%s: TrackCount of the bool-only program %d differs from the full program's %d (hypothesis cfg_wf)", s.spec.name, tq, tf))
			}
			in = append(in, b2i(s.hasQ), b2i(s.spec.rtl), int64(tf), int64(tq), int64(s.re.VerifCapsize()), int64(o.MaxBacktrackingStackSize),
				int64(o.MaxCachedRuneBufferLength), int64(o.MaxCachedReplaceBufferLength), int64(o.MaxCachedReplacerDataEntries),
				int64(o.MaxCachedReplacerDataBytes), b2i(s.spec.timeout != 0))
		}
		in = append(in, intsLen(runeSizes)...)
		in = append(in, intsLen(byteSizes)...)
		in = append(in, int64(len(rows)))
		for _, r := range rows {
			in = append(in, int64(len(r)))
			in = append(in, r...)
		}
		in = append(in, int64(len(msteps)))
		var implOut []int64
		for i, ms := range msteps {
			in = append(in, int64(len(ms)))
			in = append(in, ms...)
			implOut = append(implOut, outs[i].summary...)
			implOut = append(implOut, books[i]...)
		}
		var desc strings.Builder
		fmt.Fprintf(&desc, "history #%d (%d steps):", h, len(steps))
		for i, st := range steps {
			if i < 12 {
				fmt.Fprintf(&desc, " %s => %.40s;", c12StepDesc(st, specs, repls), outs[i].canon)
			}
		}
		hc := &Case{Desc: desc.String(), ModelLeg: 1201, ModelIn: in, ImplOut: implOut, Nontrivial: recycled > 0,
			Key: fmt.Sprintf("h%d", h), Class: fmt.Sprintf("len<=%d", ((len(steps)+39)/40)*40), Direct: strings.Join(direct, " || ")}
		if noModel {
			hc.ModelLeg, hc.ModelIn, hc.ImplOut = 0, nil, nil
		}
		c.Add(hc)
		for _, s := range sh {
			s.re.VerifOnScan(nil)
		}
		if (h+1)%50 == 0 {
			c.Flush()
		}
	}
	if !observeBufs {
		for _, g := range []string{"rune-class0", "rune-class1", "rune-class2", "rune-class3", "byte-class0", "byte-class1"} {
			gates[g]++ // not observable in a shared process
		}
	}
	for _, g := range []string{"op1", "op2", "op3", "op4", "op5", "op6", "op7", "op8", "op9", "op10", "op11", "err1", "err2", "err3", "err4", "err5",
		"recycled-runner", "cache-nonempty", "cache-full", "rune-class0", "rune-class1", "rune-class2", "rune-class3", "byte-class0", "byte-class1"} {
		c.Gate("c12-hist generator never produced: "+g, gates[g] > 0)
	}
	ks := make([]string, 0, len(gates))
	for k := range gates {
		ks = append(ks, k)
	}
	sort.Strings(ks)
	for _, k := range ks {
		for n := 0; n < gates[k]; n += 1 + gates[k]/50 { // coarse histogram without flooding
			c.Hist("step:" + k)
		}
	}
}

func intsLen(xs []int) []int64 {
	out := []int64{int64(len(xs))}
	for _, x := range xs {
		out = append(out, int64(x))
	}
	return out
}

func c12StepDesc(st *c12Step, specs []c12Spec, repls []string) string {
	names := []string{"", "MatchString", "MatchRunes", "FindStringMatch", "FindRunesMatch", "FindNextMatch", "FindAllStringIndex", "FindAllRunesIndex",
		"Replace", "ReplaceFunc", "Split", "FindStringMatchStartingAt"}
	t := st.text
	if len(t) > 48 {
		t = fmt.Sprintf("%s…(%d bytes)", t[:40], len(t))
	}
	extra := ""
	switch st.op {
	case 5:
		if st.prev == nil {
			extra = " prev=nil"
		} else {
			extra = fmt.Sprintf(" prev@%d+%d", st.prev.RuneIndex, st.prev.RuneLength)
		}
	case 6, 7, 10:
		extra = fmt.Sprintf(" n=%d", st.count)
	case 8:
		extra = fmt.Sprintf(" repl=%q startAt=%d count=%d", repls[st.repl], st.startAt, st.count)
	case 9:
		extra = fmt.Sprintf(" startAt=%d count=%d", st.startAt, st.count)
	case 11:
		extra = fmt.Sprintf(" startAt=%d", st.startAt)
	}
	return fmt.Sprintf("%s[%s `%s`](%q%s)", names[st.op], specs[st.re].name, specs[st.re].pat, t, extra)
}

// runner_ok of coq/Proofs/PoolRunnerProofs.v on a real pooled runner
func c12CheckRunnerOK(r regexp2.VerifRunnerInfo, s *c12Shared, fail func(string, ...any)) {
	if !r.CodeIsFull {
		fail("pooled runner does not hold the full program (runner.code not reset)")
	}
	if !r.TextNil {
		fail("pooled runner still references its input text")
	}
	if !r.MatchTextNil {
		fail("pooled runner's recycled match still references its text")
	}
	if !(r.TrackNil == r.StackNil && r.StackNil == r.CrawlNil) {
		fail("pooled runner has only part of its stacks allocated")
	}
	if r.MatchCountLen >= 0 && r.MatchCountLen != s.re.VerifCapsize() {
		fail("recycled match has %d capture counters, capsize is %d", r.MatchCountLen, s.re.VerifCapsize())
	}
	if !r.TrackNil {
		limit := s.re.VerifPoolConfig().MaxBacktrackingStackSize
		tf, _ := s.re.VerifTrackCounts()
		if limit >= 0 && r.TrackLen > limit {
			fail("pooled runner's track (%d) exceeds MaxBacktrackingStackSize %d", r.TrackLen, limit)
		}
		if r.TrackCount != tf {
			fail("pooled runner's runtrackcount %d differs from TrackCount %d", r.TrackCount, tf)
		}
	}
}

// the step for the model, plus the oracle rows it will consult (all computed on fresh Regexps)
func c12ModelStep(st *c12Step, s *c12Shared, tok func(string) int64, mask int64, usedQuick int, addRow func([]int64), direct *[]string) []int64 {
	text := st.text
	runes := []rune(text)
	n, slen := int64(len(runes)), int64(len(text))
	token := tok(text)
	if n == 0 {
		token = 0
	}
	skey := int64(0)
	if slen > 0 {
		skey = token*1048576 + n
	}
	re := int64(st.re)
	ms := []int64{int64(st.op), re, token, slen, n, 0, 0, 0, 0, 0, mask}
	quickOp := st.op == 1 || st.op == 2 || st.op == 6 || st.op == 7
	code := int64(0)
	if quickOp && s.hasQ {
		code = 1
	}
	if usedQuick >= 0 && int64(usedQuick) != code && len(*direct) < 3 {
		*direct = append(*direct, fmt.Sprintf("%s on `%s`: scans ran with program %d, the entry point should select %d (0 full, 1 bool-only)", fmt.Sprint(st.op), s.spec.pat, usedQuick, code))
	}
	start, prevlen, scan := int64(0), int64(-1), true
	defStart := func() int64 {
		if s.spec.rtl {
			return n
		}
		return 0
	}
	strStart := func(startAt int, variant int64) {
		probe := s.spec.compile()
		cand, ok, err := probe.VerifStringStart(text, startAt)
		switch {
		case err != nil:
			addRow([]int64{3, re, skey, int64(startAt), variant, 0, 2, c12ErrCode(err), 0, 0})
			scan = false
		case !ok:
			addRow([]int64{3, re, skey, int64(startAt), variant, 0, 0, 0, 0, 0})
			scan = false
		default:
			rs := c12RuneStart(text, cand)
			if variant == 0 && rs < 0 {
				rs = 0
			}
			if variant == 1 && rs < 0 {
				addRow([]int64{3, re, skey, int64(startAt), variant, 0, 2, 4, 0, 0})
				scan = false
				return
			}
			addRow([]int64{3, re, skey, int64(startAt), variant, 0, 1, int64(rs), 0, 0})
			start = int64(rs)
		}
	}
	switch st.op {
	case 1:
		probe := s.spec.compile()
		cand, ok := probe.VerifMsCandidate(text)
		addRow([]int64{2, re, skey, 0, 0, 0, b2i(ok), int64(cand), 0, 0})
		if !ok {
			scan = false
		} else if cand <= 0 {
			start = defStart()
		} else {
			rs := c12RuneStart(text, cand)
			addRow([]int64{1, skey, int64(cand), 0, 0, 0, int64(rs), 0, 0, 0})
			if rs < 0 {
				rs = 0
			}
			start = int64(rs)
		}
	case 2, 4, 7:
		start = defStart()
		if st.op == 7 {
			ms[5] = int64(st.count)
			scan = st.count != 0
		}
	case 3, 10:
		strStart(-1, 0)
		if st.op == 10 {
			ms[5] = int64(st.count)
			if st.count < -1 || st.count == 0 || st.count == 1 {
				scan = false
			}
		}
	case 11:
		ms[5] = int64(st.startAt)
		strStart(st.startAt, 1)
	case 9:
		ms[5], ms[6] = int64(st.startAt), int64(st.count)
		if st.count < -1 || st.count == 0 {
			scan = false
		} else {
			strStart(st.startAt, 1)
		}
	case 5:
		if st.prev == nil {
			scan = false
		} else {
			ms[5], ms[6], ms[7] = 1, int64(st.prev.VerifTextpos()), int64(st.prev.RuneLength)
			start, prevlen = ms[6], ms[7]
		}
	case 6:
		ms[5] = int64(st.count)
		if st.count == 0 {
			scan = false
			break
		}
		probe := s.spec.compile()
		cand, ok, err := probe.VerifStringStart(text, -1)
		switch {
		case err != nil:
			addRow([]int64{4, re, skey, 0, 0, 0, 2, c12ErrCode(err), 0, 0})
			scan = false
		case !ok:
			addRow([]int64{4, re, skey, 0, 0, 0, 0, 0, 0, 0})
			scan = false
		default:
			addRow([]int64{4, re, skey, 0, 0, 0, 1, int64(cand), 0, 0})
			if cand != 0 {
				rs := c12RuneStart(text, cand)
				addRow([]int64{1, skey, int64(cand), 0, 0, 0, int64(rs), 0, 0, 0})
				if rs < 0 {
					rs = 0
				}
				start = int64(rs)
			}
		}
	case 8:
		rl := int64(len(c12Repls()[st.repl]))
		ms[5], ms[6], ms[7], ms[8] = int64(st.repl+1), rl, int64(st.startAt), int64(st.count)
		rs := c12RuneStart(text, st.startAt)
		addRow([]int64{1, skey, int64(st.startAt), 0, 0, 0, int64(rs), 0, 0, 0})
		if st.count < -1 || st.count == 0 || st.startAt > len(text) || (st.startAt >= 0 && rs < 0) {
			scan = false
		} else if rs < 0 {
			start = defStart()
		} else {
			start = int64(rs)
		}
	}
	if !scan {
		return ms
	}
	// follow the chain of matches: every loop of the library continues at (textpos, RuneLength) of the last match
	for k := 0; k < 600; k++ {
		stop := n
		bump := int64(1)
		if s.spec.rtl {
			stop, bump = 0, -1
		}
		pos := start
		if prevlen == 0 {
			if start == stop {
				break // scan returns before the interpreter is entered
			}
			pos = start + bump
		}
		probe := s.spec.compile()
		kind, idx, ln, tp := c12SafeScan(probe, code == 1, runes, int(start), int(prevlen))
		for try := 0; kind == 3 && !c12IsCatastrophic(text) && try < 3; try++ { // wall-clock deadline on a loaded machine
			kind, idx, ln, tp = c12SafeScan(s.spec.compile(), code == 1, runes, int(start), int(prevlen))
		}
		addRow([]int64{0, re, code, token, start, pos, int64(kind), int64(idx), int64(ln), int64(tp)})
		if kind != 1 {
			break
		}
		start, prevlen = int64(tp), int64(ln)
	}
	return ms
}

func c12SafeScan(re *regexp2.Regexp, useQuick bool, runes []rune, start, prevlen int) (kind, idx, ln, tp int) {
	defer func() {
		if recover() != nil {
			kind, idx, ln, tp = 9, 0, 0, 0 // e.g. a start position taken from a corrupted previous match
		}
	}()
	return re.VerifScan(useQuick, runes, false, start, prevlen, true)
}

// ---------- pool_index ----------

func legC12Index(c *Ctx) {
	c12PoolMu.Lock()
	defer c12PoolMu.Unlock()
	c.Rule("poolIndex(needed, maxSize) of both global pools for needed around every class size, maxSize in {-1, 0, every class size and its neighbours, random}; non-trivial = a class is selected (distinct by (pool, needed, max))")
	n := c.N(4000, 100000)
	for pool := 0; pool < 2; pool++ {
		sizes := regexp2.VerifRuneClassSizes()
		f := regexp2.VerifRunePoolIndex
		if pool == 1 {
			sizes, f = regexp2.VerifByteClassSizes(), regexp2.VerifBytePoolIndex
		}
		var cand []int
		for _, s := range sizes {
			cand = append(cand, s-1, s, s+1)
		}
		cand = append(cand, 0, 1, -1, 1<<30)
		for b := 0; b < n; b += 64 {
			in := intsLen(sizes)
			var q, out []int64
			cnt := 0
			for i := 0; i < 64; i++ {
				need := Pick(c.Rng, cand)
				if c.Rng.Chance(40) {
					need = c.Rng.Intn(2 << 20)
				}
				mx := Pick(c.Rng, cand)
				if c.Rng.Chance(20) {
					mx = c.Rng.Intn(2 << 20)
				}
				if need < 0 {
					need = 0
				}
				q = append(q, int64(need), int64(mx))
				r := f(need, mx)
				if r >= 0 {
					cnt++
				}
				out = append(out, int64(r))
			}
			in = append(in, 64)
			in = append(in, q...)
			c.Add(&Case{Desc: fmt.Sprintf("poolIndex pool=%d sizes=%v queries=%v", pool, sizes, q), ModelLeg: 1202, ModelIn: in, ImplOut: out,
				Nontrivial: cnt > 0, Key: fmt.Sprintf("%d-%v", pool, q), Class: fmt.Sprintf("pool%d", pool)})
		}
	}
}
