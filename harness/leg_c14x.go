package main

// C14, deterministic interleavings of makeDeadline on the REAL clock: the scheduling points of the
// verif build (verif_clockpoint_on.go) park one call between its unlocked loads of the clock and its
// critical section while another call runs to completion — the schedules the Coq model quantifies
// over (Proofs/Clock*: no early timeout over all schedules), produced on purpose instead of waiting
// for the scheduler to produce them.

import (
	"fmt"
	"strings"
	"sync"
	"time"

	"github.com/dlclark/regexp2/v2"
)

func init() { registerLeg("c14-interleave", "C14", legC14Interleave) }

func legC14Interleave(c *Ctx) {
	c.Rule("real makeDeadline, clock period 1 ms: the clock is started, stopped (StopTimeoutClock or natural exit is not needed: a stop leaves `current` stale) and left idle for longer than the timeout; then call B is parked at scheduling point 1 (after its unlocked loads of clockEnd and current), call A runs to completion (refreshes and restarts the clock), B is released; also the symmetric orders (A parked, B complete; both parked, released in either order) and 3 calls, and two calls whose timeouts differ by 3 s taking the lock in either order; checked: clockEnd covers every deadline handed out; every returned deadline lies at least its timeout (minus the clock lag: 25 ms + stalls measured by a heartbeat goroutine) after the TRUE time at which the call was released; timeouts {5,20,80} ms x idle gaps max(100 ms, {3x,10x} timeout); also: continuation scans (FindNextMatch after an idle gap of 3x timeout + 100 ms; ReplaceFunc whose evaluator sleeps 2x timeout per match) must not report a timeout; non-trivial = every scenario")
	c14ClockMu.Lock() // the timeout clock is one process-wide object: never share it with leg c14-clock
	defer c14ClockMu.Unlock()
	regexp2.SetTimeoutCheckPeriod(time.Millisecond)
	defer regexp2.VerifSetClockHook(nil)
	hbStop := make(chan struct{})
	go c14Heartbeat(hbStop)
	defer close(hbStop)
	timeouts := []time.Duration{5 * time.Millisecond, 20 * time.Millisecond, 80 * time.Millisecond}
	ran := 0
	for rep := 0; rep < c.N(1, 10); rep++ {
		for _, d := range timeouts {
			for _, gapMul := range []float64{3, 10} {
				for _, order := range []string{"B-parked-A-runs", "both-parked-release-B-first", "both-parked-release-A-first", "three-calls", "long-locks-first-then-short", "short-locks-first-then-long"} {
					if d == 80*time.Millisecond && gapMul == 10 && !c.Thorough {
						continue
					}
					ran++
					desc := fmt.Sprintf("interleave %s timeout=%v idle=%.1fx", order, d, gapMul)
					cs := &Case{Desc: desc, Nontrivial: true, Key: fmt.Sprint(desc, rep), Class: "interleave/" + order}
					if !c14StopWithin(3*time.Second) || !regexp2.VerifClockReset() {
						cs.Direct = "StopTimeoutClock did not return within 3 s"
						c.Add(cs)
						continue
					}
					// start the clock once, stop it, and let `current` go stale
					regexp2.VerifClockMakeDeadline(d)
					if !c14StopWithin(3 * time.Second) {
						cs.Direct = "StopTimeoutClock did not return within 3 s"
						c.Add(cs)
						continue
					}
					// idle for much longer than the timeout: a deadline computed from the stale clock value lies
					// at least (gap - timeout) before the true time, far more than the clock ever lags
					gap := time.Duration(float64(d) * gapMul)
					if gap < 100*time.Millisecond {
						gap = 100 * time.Millisecond
					}
					time.Sleep(gap)
					c14TakeStall()

					nCalls := 2
					if order == "three-calls" {
						nCalls = 3
					}
					type call struct {
						park     chan struct{} // closed to release the call from point 1
						arrived  chan struct{}
						deadline int64
						done     chan struct{}
						before   int64 // true time in ticks just before the call was released
						d        time.Duration
					}
					calls := make([]*call, nCalls)
					for i := range calls {
						calls[i] = &call{park: make(chan struct{}), arrived: make(chan struct{}), done: make(chan struct{}), d: d}
					}
					if order == "long-locks-first-then-short" || order == "short-locks-first-then-long" {
						calls[0].d = 3*time.Second + d // differs from the other call by more than the one second of slop in clockEnd
					}
					var mu sync.Mutex
					// the callback cannot know its goroutine: the scenario starts one call at a time and waits for
					// it to arrive at point 1, so the next value in the slot is the arriving call
					slot := make(chan *call, nCalls)
					hook := func(point int) {
						if point != 1 {
							return
						}
						mu.Lock()
						var me *call
						select {
						case me = <-slot:
						default:
						}
						mu.Unlock()
						if me == nil {
							return // a call that is not part of the scenario (none expected)
						}
						close(me.arrived)
						<-me.park
					}
					regexp2.VerifSetClockHook(hook)
					start := func(k int) {
						slot <- calls[k]
						go func(cl *call) {
							cl.deadline = regexp2.VerifClockMakeDeadline(cl.d)
							close(cl.done)
						}(calls[k])
						select {
						case <-calls[k].arrived:
						case <-time.After(2 * time.Second):
						}
					}
					release := func(k int) {
						_, _, _, _, since := regexp2.VerifClockSnapshot()
						calls[k].before = regexp2.VerifClockTicks(time.Duration(since))
						close(calls[k].park)
						select {
						case <-calls[k].done:
						case <-time.After(2 * time.Second):
						}
					}
					switch order {
					case "B-parked-A-runs":
						start(0) // B parks with stale loads
						start(1) // A arrives at point 1 too ...
						release(1)
						release(0)
					case "both-parked-release-B-first":
						start(0)
						start(1)
						release(0)
						release(1)
					case "both-parked-release-A-first":
						start(0)
						start(1)
						release(1)
						release(0)
					case "long-locks-first-then-short":
						start(0)
						start(1)
						release(0)
						release(1)
					case "short-locks-first-then-long":
						start(0)
						start(1)
						release(1)
						release(0)
					case "three-calls":
						start(0)
						start(1)
						start(2)
						release(2)
						release(0)
						release(1)
					}
					regexp2.VerifSetClockHook(nil)
					// clockEnd covers every deadline handed out (fastclock.go: "clockEnd >= any existing deadline"), else the
					// clock goroutine stops before that deadline and the match holding it never times out
					_, clockEnd, _, _, _ := regexp2.VerifClockSnapshot()
					for k, cl := range calls {
						select {
						case <-cl.done:
							if cs.Direct == "" && clockEnd < cl.deadline {
								cs.Direct = fmt.Sprintf("after the calls returned clockEnd = %d does not cover the deadline %d of call %d (makeDeadline(%v)): the clock stops first and that deadline is never reached", clockEnd, cl.deadline, k, cl.d)
							}
						default:
						}
					}
					_ = 0
					// the clock value a deadline is computed from may lag the true time by the clock period plus
					// scheduling stalls (the model's lag; the heartbeat goroutine measures the stalls of this run)
					lag := regexp2.VerifClockTicks(time.Duration(c14Lag+c14TakeStall())) + 2
					for k, cl := range calls {
						select {
						case <-cl.done:
						default:
							cs.Direct = fmt.Sprintf("call %d did not return from makeDeadline within 2 s", k)
							continue
						}
						ticks := regexp2.VerifClockTicks(cl.d)
						if cs.Direct == "" && cl.deadline < cl.before+ticks-lag {
							cs.Direct = fmt.Sprintf("call %d: makeDeadline(%v) returned deadline %d, but the true time was already %d ticks when the call was released from scheduling point 1: the deadline lies %d ticks (timeout = %d ticks, lag allowance %d) after it — computed from the stale clock value read before another call refreshed the clock",
								k, cl.d, cl.deadline, cl.before, cl.deadline-cl.before, ticks, lag)
						}
					}
					c.Add(cs)
				}
			}
		}
	}
	// continuation scans: every scan — also the ones FindNextMatch, the find-all calls, Replace, ReplaceFunc and Split
	// start after the first match — gets its own deadline: a quick continuation after an idle gap longer than the
	// timeout, or inside an operation that as a whole takes longer than the timeout, must not report a timeout
	conts := 0
	for _, d := range []time.Duration{5 * time.Millisecond, 20 * time.Millisecond} {
		re := regexp2.MustCompile(`\d+`)
		re.MatchTimeout = d
		const text = "a1b22c333d4444"
		cs := &Case{Desc: fmt.Sprintf("continuation scans with MatchTimeout=%v", d), Nontrivial: true, Key: fmt.Sprint("cont", d), Class: "continuation"}
		fail := func(f string, a ...any) {
			if cs.Direct == "" {
				cs.Direct = fmt.Sprintf(f, a...)
			}
		}
		gap := 3*d + 100*time.Millisecond
		m, err := re.FindStringMatch(text)
		for k := 0; m != nil && err == nil && k < 4; k++ {
			time.Sleep(gap)
			t0 := time.Now()
			m, err = re.FindNextMatch(m)
			conts++
			if err != nil {
				fail("FindNextMatch %d after an idle gap of %v took %v and reported: %v", k, gap, time.Since(t0), err)
			}
		}
		if err != nil && cs.Direct == "" {
			fail("FindStringMatch: %v", err)
		}
		t0 := time.Now()
		out, err := re.ReplaceFunc(text, func(m regexp2.Match) string { time.Sleep(2 * d); return "#" }, -1, -1)
		conts++
		if err != nil || out != "a#b#c#d#" {
			fail("ReplaceFunc whose evaluator sleeps 2x the timeout per match (every scan itself takes microseconds) returned %q, %v after %v", out, err, time.Since(t0))
		}
		runes := []rune(text)
		rm, err := re.FindRunesMatch(runes)
		for k := 0; rm != nil && err == nil && k < 2; k++ {
			time.Sleep(gap)
			rm, err = re.FindNextMatch(rm)
			conts++
			if err != nil {
				fail("FindNextMatch %d (rune input) after an idle gap of %v reported: %v", k, gap, err)
			}
		}
		c.Add(cs)
	}
	// StopTimeoutClock while a timed match is in flight: the clock goroutine exits, `current` goes stale and the
	// deadline of the running match is never reached until some other timed match restarts the clock
	// (known finding c14-stop-inflight: StopTimeoutClock is documented for tests only; no small repair)
	{
		d := 20 * time.Millisecond
		re := regexp2.MustCompile(`(a+)+$`)
		re.MatchTimeout = d
		in := strings.Repeat("a", 40) + "b"
		done := make(chan error, 1)
		t0 := time.Now()
		go func() { _, err := re.MatchString(in); done <- err }()
		time.Sleep(5 * time.Millisecond)
		c14StopWithin(3 * time.Second)
		cs := &Case{Desc: fmt.Sprintf("StopTimeoutClock 5 ms into a catastrophic match with MatchTimeout=%v", d), Nontrivial: true, Key: "stop-inflight", Class: "stop-inflight", Guard: "c14-stop-inflight"}
		select {
		case <-done:
		case <-time.After(400 * time.Millisecond):
			cs.Direct = fmt.Sprintf("the match is still running %v after it started (timeout %v): its deadline can no longer be reached because the clock was stopped under it", time.Since(t0).Round(time.Millisecond), d)
			regexp2.VerifClockMakeDeadline(d) // restart the clock so that the match can time out
			select {
			case <-done:
			case <-time.After(3 * time.Second):
				cs.Direct += "; and it did not return within 3 s after the clock was restarted"
				cs.Guard = ""
			}
		}
		c.Add(cs)
	}
	// the clock period is re-read on every tick: a goroutine started under a long period follows a later
	// SetTimeoutCheckPeriod, so that "no later than the timeout plus a few clock periods" refers to the period in force
	{
		c14StopWithin(3 * time.Second)
		regexp2.SetTimeoutCheckPeriod(100 * time.Millisecond)
		regexp2.VerifClockMakeDeadline(2 * time.Second) // starts the clock goroutine under the 100 ms period
		time.Sleep(5 * time.Millisecond)
		regexp2.SetTimeoutCheckPeriod(time.Millisecond)
		time.Sleep(120 * time.Millisecond) // the tick that was already sleeping under the old period is over
		d := 20 * time.Millisecond
		re := regexp2.MustCompile(`(a+)+$`)
		re.MatchTimeout = d
		c14TakeStall()
		t0 := time.Now()
		_, err := re.MatchString(strings.Repeat("a", 40) + "b")
		el := time.Since(t0)
		cs := &Case{Desc: fmt.Sprintf("clock goroutine started under a 100 ms period, period lowered to 1 ms, then a catastrophic match with MatchTimeout=%v", d), Nontrivial: true, Key: "period-change", Class: "period-change"}
		allow := d + 30*time.Millisecond + time.Duration(c14TakeStall())
		if err == nil {
			cs.Direct = "the catastrophic match returned without a timeout error"
		} else if el > allow {
			cs.Direct = fmt.Sprintf("the match timed out after %v (timeout %v, clock period 1 ms, allowance %v): the clock still ticks at the period it was started with", el.Round(time.Millisecond), d, allow)
		}
		c.Add(cs)
		c14StopWithin(3 * time.Second)
	}
	// a slow match that never backtracks (its cost is all forward execution) is interrupted like any other: the
	// deadline is polled while instructions run, not only when the matcher is about to backtrack
	{
		pat := `^(?:(?=[\w\s]*!)(?=[\w\s]*!)(?=[\w\s]*!)a)*$`
		in := strings.Repeat("a", 7000) + "!"
		plain := regexp2.MustCompile(pat)
		t0 := time.Now()
		_, _ = plain.MatchString(in)
		untimed := time.Since(t0)
		cs := &Case{Desc: fmt.Sprintf("forward-only slow match (%v untimed) with MatchTimeout=20ms", untimed.Round(time.Millisecond)), Nontrivial: true, Key: "forward-only", Class: "forward-only"}
		if untimed > 150*time.Millisecond {
			re := regexp2.MustCompile(pat)
			re.MatchTimeout = 20 * time.Millisecond
			c14TakeStall()
			t0 = time.Now()
			_, err := re.MatchString(in)
			el := time.Since(t0)
			allow := 20*time.Millisecond + 40*time.Millisecond + time.Duration(c14TakeStall())
			if err == nil {
				cs.Direct = fmt.Sprintf("the match ran to completion in %v although its deadline (20 ms) passed long before: no timeout was reported", el.Round(time.Millisecond))
			} else if el > allow && el > untimed/2 {
				cs.Direct = fmt.Sprintf("the timeout was reported after %v (timeout 20 ms, allowance %v, untimed run %v)", el.Round(time.Millisecond), allow, untimed.Round(time.Millisecond))
			}
		} else {
			c.Hist("forward-only-too-fast-to-judge")
		}
		c.Add(cs)
	}
	// the budget is per CALL, not per attempt: a search whose time is spread over many start positions, each far
	// cheaper than the timeout, times out like one that blows up in its first attempt (both directions)
	for _, dir := range []struct {
		pat string
		ro  regexp2.RegexOptions
	}{{`(a+)+b`, 0}, {`b(a+)+`, regexp2.RightToLeft}} {
		in := strings.Repeat(strings.Repeat("a", 12)+"!", 1500)
		plain := regexp2.MustCompile(dir.pat, dir.ro)
		t0 := time.Now()
		_, _ = plain.MatchString(in)
		untimed := time.Since(t0)
		cs := &Case{Desc: fmt.Sprintf("many cheap attempts (%v untimed, 1500 start positions) with MatchTimeout=30ms, options %#x", untimed.Round(time.Millisecond), int(dir.ro)), Nontrivial: true, Key: fmt.Sprint("many-attempts", dir.ro), Class: "many-attempts"}
		if untimed > 250*time.Millisecond {
			re := regexp2.MustCompile(dir.pat, dir.ro)
			re.MatchTimeout = 30 * time.Millisecond
			c14TakeStall()
			t0 = time.Now()
			_, err := re.MatchString(in)
			el := time.Since(t0)
			allow := 30*time.Millisecond + 40*time.Millisecond + time.Duration(c14TakeStall())
			if err == nil {
				cs.Direct = fmt.Sprintf("the search ran to completion in %v although its deadline (30 ms) passed long before: no timeout was reported", el.Round(time.Millisecond))
			} else if el > allow && el > untimed/2 {
				cs.Direct = fmt.Sprintf("the timeout was reported after %v (timeout 30 ms, allowance %v, untimed run %v)", el.Round(time.Millisecond), allow, untimed.Round(time.Millisecond))
			}
		} else {
			c.Hist("many-attempts-too-fast-to-judge")
		}
		c.Add(cs)
	}
	// MatchTimeout is a public field read at every call: a Regexp first used without a timeout honours one set later
	// (and the other way round), whatever runner the pool hands back
	{
		re := regexp2.MustCompile(`(a+)+$`)
		cs := &Case{Desc: "MatchTimeout changed between calls on one Regexp (untimed quick match, then 20 ms on a catastrophic input, then back to no timeout)", Nontrivial: true, Key: "timeout-field", Class: "timeout-field"}
		for round := 0; round < 3 && cs.Direct == ""; round++ {
			re.MatchTimeout = regexp2.DefaultMatchTimeout
			if ok, err := re.MatchString("aaaa"); err != nil || !ok {
				cs.Direct = fmt.Sprintf("untimed quick match: %v %v", ok, err)
			}
			re.MatchTimeout = 20 * time.Millisecond
			c14TakeStall()
			t0 := time.Now()
			done := make(chan error, 1)
			go func() { _, e := re.MatchString(strings.Repeat("a", 32) + "b"); done <- e }()
			var err error
			select {
			case err = <-done:
			case <-time.After(3 * time.Second):
				cs.Direct = fmt.Sprintf("round %d: after an untimed call on the same Regexp, MatchTimeout=20ms is ignored: the catastrophic match is still running after 3 s", round)
				c.Add(cs)
				goto afterTimeoutField // (the abandoned match keeps a core busy until the process ends)
			}
			el := time.Since(t0)
			if err == nil {
				cs.Direct = fmt.Sprintf("round %d: after an untimed call, MatchTimeout=20ms was ignored: the catastrophic match ran to completion in %v", round, el.Round(time.Millisecond))
			} else if el > 20*time.Millisecond+60*time.Millisecond+time.Duration(c14TakeStall()) {
				cs.Direct = fmt.Sprintf("round %d: timeout reported after %v (timeout 20 ms)", round, el.Round(time.Millisecond))
			}
			re.MatchTimeout = regexp2.DefaultMatchTimeout
			if ok, err := re.MatchString("aaaa"); (err != nil || !ok) && cs.Direct == "" {
				cs.Direct = fmt.Sprintf("round %d: back to no timeout, a quick match reports: %v %v", round, ok, err)
			}
		}
		c.Add(cs)
	}
afterTimeoutField:
	c.Gate("continuation scans ran", conts >= 10)
	c.Gate("interleaving scenarios ran", ran >= 16)
}
