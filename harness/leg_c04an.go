package main

// c04-analysis: the compile-time analyses modelled in coq/Model/Analysis.v (ComputeMinLength,
// computeMaxLength, findLeadingOrTrailingAnchor, findPrefix, getAnchors, getPrefix and the decision
// ladder of newFindOptimizations up to the LeadingString modes, including the leading-positive-lookahead
// wrapper) recomputed by the extracted model on the tree exported from the implementation, and compared
// with what the implementation published for the same pattern.

import (
	"fmt"

	"github.com/dlclark/regexp2/v2/syntax"
)

func init() {
	registerLeg("c04-analysis", "C04", legC04Analysis)
}

// patterns aimed at the individual analyses (each is run in both directions, analysis mode off and on)
var c04Shapes = []string{
	// leading-lookahead wrapper (optimizations.go:344-361)
	`(?=abc)\w+`, `(?=\Aab)\w+`, `(?=ab$)\w+`, `(?=abc)`, `(?=a)(?=bc)x*`, `\b(?=abc)\w*`, `(?:(?=ab)\w)+`, `(?=ab)\w*$`,
	`(?=abcd)\w{2}\z`, `(?>(?=ab))\w*`, `((?=abc))x*`, `(?!x)(?=abc)\w*`, `(?=(?=abc))\w*`, `(?:(?=ab)\w)*`, `\B(?=abc)\w*`, `(?=a|b)\w*`,
	`(?=abc|abd)\w*`, `(?=[ab]c)\w*`, `(?=\Gab)\w*`, `(?<=a)(?=bc)\w*`, `(?m)^(?=ab)\w*`, `(?=ab)(?m:^)\w*`, `(?=a{3,5})\w*`,
	// trailing anchors, fixed length (optimizations.go:383-396)
	`abc$`, `a{3}\z`, `(?:ab|cd)\z`, `a+$`, `(?:a|bc)$`, `a?b\Z`, `\d{2,4}$`, `(a|b)*$`, `(?:a$|b$)`, `(?:a$|b\z)`, `a(?=b)$`, `a$(?!b)`, `a$()`,
	`(?>ab)\z`, `(ab)\z`, `(?:ab){3}\z`, `(?:a|b){2}c$`, `[ab]{2,2}$`, `a\b$`, `(?m)a$`, `(?m:a$)`, `\z`, `$`, `a*\z`, `(?:ab?){2}\z`, `(a)\1\z`, `(?(1)a|b)\z`, `(a)?(?(1)bcd|e)$`,
	// leading anchors (prefix.go:880)
	`^a`, `\Aa|\Ab`, `(?:\Aa|\Ab)c`, `(?:\Aa|^b)`, `(?:\Aa|b)`, `\Ga`, `(?m)^a`, `\zx`, `\Zx`, `$a`, `(?m)$a`, `\ba`, `\Ba`, `(?>\Aa)`, `(\A)a`, `(?=x)\Aa`, `(?!x)\Aa`, `()\Aa`, `(?<=x)\Ga`,
	`(?:\A)+a`, `(?:\Aa)+`, `a?\Ab`, `(?:\A|\G)a`, `(?:\G|\G)a`, `(?m)(?:^a|^b)`, `\b\Aa`, `\A\ba`,
	// right-to-left leading anchors (the parser reverses concatenations: the LAST written node leads)
	`a\A`, `ab\A`, `a\G`, `a\z`, `a\Z`, `a$`, `a^`, `(?m)a^`, `(?:a\A|b\A)`, `a\b\A`, `a(?=b)\A`, `(a\A)`,
	// lengths (tree.go:1875, :1947), saturation (tree.go:1414-1470)
	`(?:(?:ab){50000}){50000}`, `(?:(?:(?:ab){2000}){2000}){2000}c`, `(?:(?:ab){50000}){50000}$`, `(?:(?:a|bc){46341}){46341}\z`, `(?:(?:a|bc){46340}){46340}\z`,
	`(?:ab){2147483646}c`, `(?:[ab]c){1073741823}d\z`, `(?:[ab]c){1073741824}d\z`, `a{2147483646}b`, `a{2147483646}bc$`, `a{2147483645}b$`,
	`(?:a{2,3}|b{4,})c`, `(?:a|)b`, `(?:|a)b`, `a(?:b|c*)d`, `(a)?(?(1)bcd|e)`, `(a)?(?(1)bcd)`, `(?(?=a)ab|cde)`, `(?(a)ab)`, `(?(a)ab|c)$`, `(?(1)ab|cde)()`,
	`(a)\1`, `(a)\1$`, `(?<n>ab)\k<n>{2}`, `a*?b+?`, `(?>a|bc)d`, `(?:ab)*`, `(?:ab)+?c`, `(?:ab){2,}`, `(?:a?){3}$`, `(?:a{0,2}){0,3}\z`, `(?:ab|c){0,5}\z`, `(?:){3}$`, `(?:a*){2}$`,
	// balancing groups and back-references
	`(?<a>x)(?<b-a>y)\k<b>`, `(?<a>x)(?<-a>y)\k<a>`, `(?<a>x)+(?<b-a>y)+$`, `(?<u>b)(?<=(?<g-u>a)xb)`, `(?<u>b)(?<=(?<g-u>a)xb)\k<g>`,
	// leading literal (prefixanalyzer.go:242)
	`(cde)|(cx)|(cdef)`, `(?>cde)|(?>cx)|(?>cdef)`, `(cde)|(cdx)|(cdef)`, `(abcd)|(abxx)|(ab)|(abcde)`, `(?:ab){2}c`, `(?:ab*){2}`, `(?:ab){4}c`, `(?:ab){5}c`, `(?:ab){2,}c`, `a{40}b`, `a{32}b`, `a{31}b`, `a{3,}b`, `a{3}?b`,
	`(?:abc){5}d`, `€a|₭b`, `(€a)|(₭b)`, `(ab|ac)d`, `ab(?=c)cd`, `\bab`, `ab\bcd`, `(?>ab)c`, `(?i)abc`, `(?i)1a2`, `(?i)12`, `ab(c|d)ef`, `(ab)(cd)`, `(?:ab)(?:cd)+e`, `ab(?:cd){2}ef`, `(?:ab|ab)c`,
	`ab[cd]ef`, `ab.cd`, `(?>a+)b`, `aa+b`, `ab|ab`, `(ab)|(ab)`, `(ab)|(abc)|(abd)`, `((ab)|(ac))d`, `😀a|😁b`, `(😀a)|(😁b)`, `(?:(?:ab){2}){2}c`, `(?:a{2}){3}b`, `a\x{D800}b`, `(a\x{D800})|(a\x{DFFF})`,
}

func legC04Analysis(c *Ctx) {
	c.Rule("patterns: analysis shapes (lookahead wrapper, trailing/leading anchors, saturating lengths, conditionals, balancing groups, leading literals) and FindMode shapes x {LTR,RTL} x {code-gen analysis off,on}, random ASTs over the full generator syntax, harvested test patterns; for each, syntax.Parse + syntax.Write, the post-rewrite tree is exported and the extracted Analysis model must reproduce exactly: MinRequiredLength, MaxPossibleLength, LeadingAnchor, TrailingAnchor, FindMode (modes 1-12, else 'later'), the bytes of LeadingPrefix in the LeadingString modes, the legacy Code.Anchors, the Boyer-Moore prefix runes and case flag, and the theorem hypotheses shape_ok/no_ci_lit/look_ok expected of every real tree; non-trivial = some fact is not the default (distinct by pattern,options,analysis mode)")
	var pats []patCase
	for _, s := range c04Shapes {
		for _, rtl := range []bool{false, true} {
			for _, cg := range []bool{false, true} {
				pats = append(pats, patCase{pat: s, o: Opts{RTL: rtl}, cg: cg})
			}
		}
	}
	pats = append(pats, shapePatterns(c.Rng)...)
	pats = append(pats, genPatterns(c.Rng, c.N(6000, 120000), true)...)
	for _, h := range harvestedPatterns() {
		for _, rtl := range []bool{false, true} {
			for _, cg := range []bool{false, true} {
				pats = append(pats, patCase{pat: h, o: Opts{RTL: rtl}, cg: cg})
			}
		}
	}
	seen := map[string]int{}
	for _, p := range pats {
		var tree *syntax.RegexTree
		var code *syntax.Code
		var err error
		desc := fmt.Sprintf("pattern %q opts=%s cg=%v", p.pat, p.o, p.cg)
		func() {
			defer func() {
				if e := recover(); e != nil {
					c.Add(&Case{Desc: desc, Direct: fmt.Sprintf("compiling panicked: %v", e), Class: "panic"})
					tree = nil
				}
			}()
			tree, err = syntax.Parse(p.pat, syntax.ParseOptions{RegexOptions: syntax.RegexOptions(p.o.bits()), CodeGen: p.cg})
			if err != nil {
				tree = nil
				return
			}
			code, err = syntax.Write(tree)
			if err != nil {
				tree = nil
			}
		}()
		if tree == nil || code == nil {
			c.Hist("not-compiled")
			continue
		}
		fo := tree.FindOptimizations
		if fo == nil {
			c.Add(&Case{Desc: desc, Direct: "no FindOptimizations published", Class: "nil"})
			continue
		}
		tw := ExportTree(tree, code)
		rtl := p.o.RTL
		in := append([]int64{}, tw.Words...)
		// later_useful: outside the leading-anchor modes only the lookahead analysis leaves TrailingAnchor at 0
		in = append(in, b2i(rtl), b2i(fo.TrailingAnchor != 0))
		mode := int64(fo.FindMode)
		if mode < 1 || mode > 12 {
			mode = 99
		}
		out := []int64{0, int64(fo.MinRequiredLength), int64(fo.MaxPossibleLength), int64(fo.LeadingAnchor), int64(fo.TrailingAnchor), mode}
		var pb []byte
		if fo.FindMode == syntax.LeadingString_LeftToRight || fo.FindMode == syntax.LeadingString_RightToLeft {
			pb = []byte(fo.LeadingPrefix)
		}
		out = append(out, int64(len(pb)))
		for _, b := range pb {
			out = append(out, int64(b))
		}
		out = append(out, int64(code.Anchors))
		if bm := code.BmPrefix; bm != nil {
			pat, ci, brtl := bm.VerifFields()
			if brtl != rtl {
				c.Add(&Case{Desc: desc, Direct: "Boyer-Moore prefix direction differs from the pattern's", Class: "bm"})
			}
			out = append(out, 1)
			out = append(out, encRunes(pat)...)
			out = append(out, b2i(ci))
			seen["bm"]++
		} else {
			out = append(out, 0, 0, 0)
		}
		// the hypotheses of the C04 theorems (shape_ok for the pattern's direction, no_ci_lit, look_ok) hold of every real tree
		out = append(out, 1, 1, 1)
		seen[fmt.Sprintf("mode%d", mode)]++
		if fo.MaxPossibleLength >= 0 {
			seen["max"]++
		}
		if fo.MinRequiredLength == 2147483646 {
			seen["saturated-min"]++
		}
		if !rtl && fo.TrailingAnchor == 0 && (mode > 4) {
			seen["lookahead-wrapper"]++
		}
		if code.Anchors != 0 {
			seen["anchors"]++
		}
		if fo.TrailingAnchor > 0 {
			seen["trailing"]++
		}
		c.Hist(fmt.Sprintf("mode:%d", mode))
		nontrivial := fo.MinRequiredLength > 0 || fo.MaxPossibleLength >= 0 || fo.LeadingAnchor > 0 || fo.TrailingAnchor > 0 || len(pb) > 0 || code.Anchors != 0 || code.BmPrefix != nil
		c.Add(&Case{Desc: desc, ModelLeg: 401, ModelIn: in, ImplOut: out, Nontrivial: nontrivial, Key: desc, Class: "analysis"})
	}
	for _, k := range []string{"mode1", "mode2", "mode3", "mode4", "mode5", "mode6", "mode7", "mode8", "mode9", "mode10", "mode11", "mode12", "mode99",
		"max", "saturated-min", "lookahead-wrapper", "anchors", "trailing", "bm"} {
		c.Gate("analysis case "+k+" exercised", seen[k] > 0)
	}
	for k, v := range seen {
		c.res.Histogram["seen:"+k] = v
	}
}
