package main

// C03, leg c03-finder: ties the Coq model of the optimized candidate finders (coq/Model/Finder.v:
// runner.go:1386-1945 findFirstCharDefault below its anchor part, shouldUseFindFirstCharOptimized,
// findFirstCharOptimized and every per-mode finder, latestPossibleStart, hasRequiredLengthAt) to
// the implementation.  For every pattern the REAL FindOptimizations data (mode, prefix, prefixes and
// their first runes, fixed-distance literal / sets, literal-after-loop, landmark chain, minimum
// required length), Code.Anchors, FcPrefix and the answers of the Boyer-Moore machine are exported;
// for every text up to length 5 over a small alphabet drawn from the pattern (plus longer near-miss
// texts) and EVERY position the model must reproduce
//   - VerifFindFirstChar:          (cut, found, Runtextpos)            model leg 304
//   - VerifFindFirstCharOptimized: (should, handled, found, Runtextpos) model leg 305
// and leadingPrefixFirstRunes is recomputed by the model from the exported prefixes (leg 306).

import (
	"fmt"
	"sort"
	"strings"
	"unicode"

	"github.com/dlclark/regexp2/v2"
	"github.com/dlclark/regexp2/v2/helpers"
	"github.com/dlclark/regexp2/v2/syntax"
)

func init() {
	registerLeg("c03-finder", "C03", legC03Finder)
}

// shapes chosen so that every FindMode the optimized dispatcher serves, every branch of indexOfSet /
// charInFixedDistanceSet / indexOfLiteralAfterLoop and every kind of landmark alternative occurs
var c03FinderShapes = []string{
	// trailing fixed-length end
	`abc\z`, `a[bc]d\z`, `[ab]{2}\z`, `ab$`, `ab\Z`, `\w\z`,
	// leading string, ignore case / not
	`abc\w`, `ab+c`, `(?i)abc\d`, `(?i)ab[cd]`, `(?i)a1b`, `(?i)éab`, `(?i)ab`, `abab`, `(?i)abab`,
	// leading strings
	`(?:abc|abd|xyz)\d`, `(?i)(?:abc|xbd)\w`, `(?i)(?:ab|ba)b`, `(?:ab|ba|ca)a`, `(?:ab|cd)+x`, `(?:ab|ac|bc)`, `(?:ab|b)c`, `(?:e |t |a )a`, `(?:ea|ta|at)b`, `(?: a| b)c`, `(?:ab|a1)b`,
	// fixed-distance char / string / sets, leading set
	`.b`, `\w\wc`, `..b`, `[ab].[cd]`, `..abc`, `.ab`, `[ab]b`, `[^a]b`, `a.c`, `\d[a-c]x`, `[a-c][^a-c]`, `[^a-c]b.`, `[abc]\d`, `[a-c]+`, `[^ab]+a`, `[^a-c]+`, `[abcdefg]x`, `\da`, `\w[ab]`, `[ab][bc][ca]`, `[ab]\w[bc]\w[ca]`, `[ab]|[bc]`, `[a-c]{2}d`, `[ac-e]b`,
	// literal after loop: string, ignore-case string, chars, char
	`\w*@x`, `[^,]*,`, `a*b`, `\s*=`, `[ab]*c+d`, `a*?b`, `\w+:`, `(?>a*)b`, `[ab]*cd`, `[ab]*(?i:cd)`, `[ab]*(?i:éd)`, `[ab]*[cd]`, `a*[bc]d`, `[a-c]*x`, `\d*ab`, `b*(?i)ab`,
	// landmark chains: literal, set, whitespace around
	`\w+@\w+\.com`, `[\w-]+\s*=\s*\d+`, `[a-z]+ = [0-9]+;`, `[a-z]+(?:@|\d+)[a-z]+(?:\.|,)[a-z]+`, `\w+(?:-|\s+)\w+(?:=|\d)\w+`, `[a-z]+(?:x|[0-9]{2})[a-z]+(?:;|y+)z`,
	`[ac]*[ab]{1,2}a`, `a*[ab]{1,2}[a-]`, `[ac]+[ab]{1,3}b[ab]{1,2}a`, `\w*[ab]{2,3}b`, `[a-c]+\s+=\s+[a-c]+`, `[ab]+\s*:\s*[ab]+`, `\w+ = \w+`, `[a-c]*-[a-c]+=`,
	`[a-z]+(?:\s+=\s+|:)[a-z]+(?:;|,)`, `\w+(\s*=\s*)\d+(;|,)`, `[a-c]+(?:\s+[ab]{1,2}|x)[a-c]+(?:\s*;\s*)`, `\w+(?:\s+-|:)\w+(?:=\s+|,)`, `[ab]*(?:\s*x| )b[cd]`, `[xy]*(?:abc|b)c(d)`, `[xy]*(?:[a ]{1,3}\s+|q)b(d)`,
	// first-character loop, Boyer-Moore, anchors, nothing
	`a|b|c`, `ab|.c`, `a?b`, `(a)?b`, `(?=ab)a.`, `(?!b)\w`, `(?<=a)b`, `a+`, `\bab`, `a{3}`, `(?:ab){2}`, `^abc`, `\Gab`, `abcd`, `é+a`, `a😀b`, `x*`, `\b`,
}

type fdSetTable struct {
	ids  map[*syntax.CharSet]int
	sets []*syntax.CharSet
}

func (t *fdSetTable) id(s *syntax.CharSet) []int64 {
	if s == nil {
		return []int64{0}
	}
	if t.ids == nil {
		t.ids = map[*syntax.CharSet]int{}
	}
	k, ok := t.ids[s]
	if !ok {
		k = len(t.sets)
		t.ids[s] = k
		t.sets = append(t.sets, s)
	}
	return []int64{1, int64(k)}
}

func encRuneLists(ls [][]rune) []int64 {
	out := []int64{int64(len(ls))}
	for _, l := range ls {
		out = append(out, encRunes(l)...)
	}
	return out
}

// encFindOpts: the FindOptimizations record in the order of Drv03.d03_fdopts
func encFindOpts(fo *syntax.FindOptimizations, t *fdSetTable, seen map[string]int) []int64 {
	out := []int64{int64(fo.FindMode), int64(fo.MinRequiredLength)}
	out = append(out, encRunes([]rune(fo.LeadingPrefix))...)
	out = append(out, encRuneLists(fo.LeadingPrefixesRunes)...)
	out = append(out, encRunes(fo.LeadingPrefixFirstRunes)...)
	out = append(out, int64(fo.FixedDistanceLiteral.C))
	out = append(out, encRunes([]rune(fo.FixedDistanceLiteral.S))...)
	out = append(out, int64(fo.FixedDistanceLiteral.Distance))
	out = append(out, int64(len(fo.FixedDistanceSets)))
	for i, s := range fo.FixedDistanceSets {
		out = append(out, t.id(s.Set)...)
		out = append(out, encRunes(s.Chars)...)
		out = append(out, b2i(s.Negated))
		if s.Range != nil {
			out = append(out, 1, int64(s.Range.First), int64(s.Range.Last))
		} else {
			out = append(out, 0)
		}
		out = append(out, int64(s.Distance))
		if i == 0 {
			switch {
			case len(s.Chars) > 0 && !s.Negated:
				seen["primary-set:chars"]++
			case len(s.Chars) > 0:
				seen["primary-set:negated-chars"]++
			case s.Range != nil && !s.Negated:
				seen["primary-set:range"]++
			case s.Range != nil:
				seen["primary-set:negated-range"]++
			default:
				seen["primary-set:general"]++
			}
		}
	}
	if l := fo.LiteralAfterLoop; l != nil {
		out = append(out, 1)
		out = append(out, encRunes([]rune(l.String))...)
		out = append(out, b2i(l.StringIgnoreCase), int64(l.Char))
		out = append(out, encRunes(l.Chars)...)
		if l.LoopNode != nil {
			out = append(out, t.id(l.LoopNode.Set)...)
		} else {
			out = append(out, 0)
		}
		if fo.FindMode == syntax.LiteralAfterLoop_LeftToRight {
			switch {
			case l.String != "" && l.StringIgnoreCase:
				seen["literal-after-loop:string-ignore-case"]++
			case l.String != "":
				seen["literal-after-loop:string"]++
			case len(l.Chars) > 0:
				seen["literal-after-loop:chars"]++
			default:
				seen["literal-after-loop:char"]++
			}
		}
	} else {
		out = append(out, 0)
	}
	if ch := fo.LandmarkChain; ch != nil {
		out = append(out, 1)
		out = append(out, t.id(ch.LeadingLoopSet)...)
		out = append(out, int64(len(ch.Landmarks)))
		for _, lm := range ch.Landmarks {
			out = append(out, int64(len(lm.Alternatives)))
			for _, a := range lm.Alternatives {
				out = append(out, encRunes(a.Literal)...)
				out = append(out, t.id(a.Set)...)
				out = append(out, t.id(a.LeadingWhitespaceSet)...)
				out = append(out, t.id(a.TrailingWhitespaceSet)...)
				out = append(out, int64(a.MinRepeat), int64(a.MaxRepeat), b2i(a.RequireWhitespaceBefore), b2i(a.RequireWhitespaceAfter))
				if len(a.Literal) > 0 {
					seen["landmark:literal"]++
				} else if a.Set != nil {
					seen["landmark:set"]++
				}
				if a.LeadingWhitespaceSet != nil {
					seen["landmark:leading-whitespace"]++
				}
				if a.TrailingWhitespaceSet != nil {
					seen["landmark:trailing-whitespace"]++
				}
				if a.RequireWhitespaceBefore {
					seen["landmark:require-whitespace-before"]++
				}
				if a.RequireWhitespaceAfter {
					seen["landmark:require-whitespace-after"]++
				}
			}
		}
	} else {
		out = append(out, 0)
	}
	return out
}

// a small alphabet for exhaustive texts: the runes that the published facts talk about first, then the
// pattern's literal letters (and their other case under IgnoreCase), then one or two foreign runes
func fdAlphabet(r *Rng, p patCase, fo *syntax.FindOptimizations, size int) []rune {
	var al []rune
	add := func(c rune) {
		if len(al) < size && !containsRune(al, c) {
			al = append(al, c)
		}
	}
	var cand []rune
	ci := p.o.I || strings.Contains(p.pat, "(?i")
	push := func(cs ...rune) {
		for _, c := range cs {
			cand = append(cand, c)
			if ci && unicode.ToUpper(c) != c {
				cand = append(cand, unicode.ToUpper(c))
			}
		}
	}
	if fo != nil {
		push([]rune(fo.LeadingPrefix)...)
		for _, pr := range fo.LeadingPrefixesRunes {
			push(pr...)
		}
		if fo.FixedDistanceLiteral.C != 0 {
			push(fo.FixedDistanceLiteral.C)
		}
		push([]rune(fo.FixedDistanceLiteral.S)...)
		for _, s := range fo.FixedDistanceSets {
			push(s.Chars...)
			if s.Range != nil {
				push(s.Range.First, s.Range.Last)
			}
		}
		if l := fo.LiteralAfterLoop; l != nil {
			push([]rune(l.String)...)
			push(l.Chars...)
			if l.Char != 0 {
				push(l.Char)
			}
		}
		if ch := fo.LandmarkChain; ch != nil {
			for _, lm := range ch.Landmarks {
				for _, a := range lm.Alternatives {
					push(a.Literal...)
				}
			}
		}
	}
	for _, c := range p.pat {
		if unicode.IsLetter(c) || unicode.IsDigit(c) || strings.ContainsRune("@.=,;: -", c) {
			push(c)
		}
	}
	// a random selection that keeps at least one foreign rune
	for i := range cand {
		j := i + r.Intn(len(cand)-i)
		cand[i], cand[j] = cand[j], cand[i]
	}
	for _, c := range cand {
		if len(al) < size-1 {
			add(c)
		}
	}
	others := append([]rune{}, p.alpha...)
	for i := range others {
		j := i + r.Intn(len(others)-i)
		others[i], others[j] = others[j], others[i]
	}
	for _, c := range others {
		add(c)
	}
	for _, c := range []rune{'a', 'b', 'x', ' '} {
		add(c)
	}
	return al
}

func legC03Finder(c *Ctx) {
	c.Rule("patterns: shapes for every FindMode the optimized dispatcher serves (trailing fixed-length end, leading string(s) with/without ignore-case, leading set, fixed-distance char/string/sets with enumerated, negated, range and general primary sets, literal after loop with string / ignore-case string / chars / char, landmark chains with literal and set alternatives and whitespace requirements), the c03-accel shapes x {LTR,RTL} x {code-gen analysis off,on}, random ASTs; per pattern the real FindOptimizations record, Code.Anchors, FcPrefix (singleton or set) and the Boyer-Moore IsMatch/Scan answers are exported, set membership and ToLower are tabulated on the runes used; texts: every string up to length 5 over 3-4 runes drawn from the published facts and the pattern (sampled beyond the per-pattern budget) plus near-miss texts up to length 14; at EVERY position 0..n the model (Model/Finder.v) must reproduce VerifFindFirstChar's (cut, found, Runtextpos) [leg 304] and VerifFindFirstCharOptimized's (should, handled, found, Runtextpos) [leg 305]; leadingPrefixFirstRunes is recomputed from the prefixes [leg 306]; non-trivial = the finder moved or gave up at some position of the text (distinct by pattern, options, text)")
	pats := shapePatterns(c.Rng)
	for _, s := range c03FinderShapes {
		for _, cg := range []bool{false, true} {
			pats = append(pats, patCase{pat: s, alpha: []rune{'a', 'b', 'c', 'd', 'x', '@', '.', '1', ' ', '=', ',', 'A', 'B', '\n', 'é', ';', ':', '-', 'e', 't'}, cg: cg})
		}
	}
	pats = append(pats, genPatterns(c.Rng, c.N(160, 4000), true)...)
	seen := map[string]int{}
	modes := map[string]int{}
	moved := map[string]int{}
	gaveUp := map[string]int{}
	// the model's mode numbers are those of the iota block in syntax/optimizations.go
	c.Gate("FindMode numbering as in Model/Finder.v", int(syntax.NoSearch) == 0 && int(syntax.TrailingAnchor_FixedLength_LeftToRight_End) == 9 &&
		int(syntax.LeadingString_LeftToRight) == 11 && int(syntax.LeadingString_OrdinalIgnoreCase_LeftToRight) == 13 &&
		int(syntax.LeadingStrings_LeftToRight) == 14 && int(syntax.LeadingStrings_OrdinalIgnoreCase_LeftToRight) == 15 &&
		int(syntax.LeadingSet_LeftToRight) == 16 && int(syntax.FixedDistanceChar_LeftToRight) == 19 && int(syntax.FixedDistanceString_LeftToRight) == 20 &&
		int(syntax.FixedDistanceSets_LeftToRight) == 21 && int(syntax.LiteralAfterLoop_LeftToRight) == 22 && int(syntax.RequiredLandmarkChain_LeftToRight) == 23)
	done := map[string]bool{}
	for _, p := range pats {
		key := fmt.Sprintf("%s|%s|%v", p.pat, p.o, p.cg)
		if done[key] {
			continue
		}
		done[key] = true
		re, err := p.compile()
		if err != nil {
			continue
		}
		c03FinderPattern(c, p, re, "", nil, seen, modes, moved, gaveUp)
	}
	c03FinderSynthetic(c, seen)
	c03FinderHelpers(c)
	for _, m := range []string{"TrailingAnchor_FixedLength_LeftToRight_End", "LeadingString_LeftToRight", "LeadingString_OrdinalIgnoreCase_LeftToRight",
		"LeadingStrings_LeftToRight", "LeadingStrings_OrdinalIgnoreCase_LeftToRight", "LeadingSet_LeftToRight", "FixedDistanceChar_LeftToRight",
		"FixedDistanceString_LeftToRight", "FixedDistanceSets_LeftToRight", "LiteralAfterLoop_LeftToRight", "RequiredLandmarkChain_LeftToRight"} {
		c.Gate("find mode "+m+" exercised", modes[m] > 0)
		c.Gate("find mode "+m+": finder skipped positions", moved[m] > 0)
		c.Gate("find mode "+m+": finder gave up", gaveUp[m] > 0)
	}
	for _, g := range []string{"primary-set:chars", "primary-set:negated-chars", "primary-set:range", "primary-set:negated-range", "primary-set:general",
		"literal-after-loop:string", "synthetic:literal-after-loop:string-ignore-case", "literal-after-loop:chars", "literal-after-loop:char",
		"landmark:literal", "landmark:set", "landmark:leading-whitespace", "landmark:trailing-whitespace", "landmark:require-whitespace-before", "landmark:require-whitespace-after",
		"leading-strings:first-rune-path", "leading-strings:position-by-position", "leading-string:ascii-ignore-case", "synthetic:leading-string:unicode-ignore-case", "synthetic:leading-strings:position-by-position", "synthetic",
		"first-char-loop:singleton", "first-char-loop:set", "first-char-loop:rtl", "boyer-moore-scan", "boyer-moore-scan:rtl", "anchors", "min-length-cut",
		"should-use:false-but-handled", "not-handled"} {
		c.Gate("finder-model event exercised: "+g, seen[g] > 0)
	}
	for k, v := range modes {
		c.res.Histogram["mode:"+k] = v
	}
	for k, v := range seen {
		c.res.Histogram["event:"+k] = v
	}
}

func c03FinderPattern(c *Ctx, p patCase, re *regexp2.Regexp, tag string, forceAl []rune, seen, modes, moved, gaveUp map[string]int) {
	code := re.VerifCode()
	fo := code.FindOptimizations
	mode := "nil"
	if fo != nil {
		mode = fo.FindMode.String()
	}
	modes[mode]++
	rtl := p.o.RTL
	var tbl fdSetTable
	var optsEnc []int64
	if fo != nil {
		optsEnc = append([]int64{1}, encFindOpts(fo, &tbl, seen)...)
		if len(fo.LeadingPrefixesRunes) > 0 && tag == "" {
			c.Add(&Case{Desc: fmt.Sprintf("pattern %q opts=%s cg=%v LeadingPrefixFirstRunes of %q", p.pat, p.o, p.cg, fo.LeadingPrefixes), ModelLeg: 306,
				ModelIn: encRuneLists(fo.LeadingPrefixesRunes), ImplOut: encRunes(fo.LeadingPrefixFirstRunes), Class: "first-runes", Nontrivial: true})
		}
		if len(fo.LeadingPrefixesRunes) > 0 {
			if fo.FindMode == syntax.LeadingStrings_LeftToRight && len(fo.LeadingPrefixFirstRunes) > 0 {
				seen["leading-strings:first-rune-path"]++
			} else if fo.FindMode == syntax.LeadingStrings_LeftToRight || fo.FindMode == syntax.LeadingStrings_OrdinalIgnoreCase_LeftToRight {
				seen["leading-strings:position-by-position"]++
			}
		}
		if fo.FindMode == syntax.LeadingString_OrdinalIgnoreCase_LeftToRight {
			ascii := true
			for _, ch := range fo.LeadingPrefix {
				if ch > unicode.MaxASCII {
					ascii = false
				}
			}
			if ascii {
				seen["leading-string:ascii-ignore-case"]++
			} else {
				seen["leading-string:unicode-ignore-case"]++
			}
		}
	} else {
		optsEnc = []int64{0}
	}
	var fcEnc []int64
	if fc := code.FcPrefix; fc != nil {
		fcEnc = []int64{1}
		if fc.PrefixSet.IsSingleton() {
			fcEnc = append(fcEnc, 1, int64(fc.PrefixSet.SingletonChar()))
		} else {
			fcEnc = append(fcEnc, 0)
		}
		fcEnc = append(fcEnc, tbl.id(&fc.PrefixSet)[1])
	} else {
		fcEnc = []int64{0}
	}
	// texts
	interesting := mode != "NoSearch" && mode != "nil" || code.FcPrefix != nil || code.BmPrefix != nil || code.Anchors != 0
	size := 3 + c.Rng.Intn(2)
	al := fdAlphabet(c.Rng, p, fo, size)
	if forceAl != nil {
		al = forceAl
	}
	var texts [][]rune
	maxLen := 5
	// full budget for the modes the optimized dispatcher serves; the first-character loop, the Boyer-Moore
	// and anchor branches need fewer texts; a finder that accepts every position needs next to none
	optimized := false
	if fo != nil {
		switch fo.FindMode {
		case syntax.TrailingAnchor_FixedLength_LeftToRight_End, syntax.LeadingString_LeftToRight, syntax.LeadingString_OrdinalIgnoreCase_LeftToRight,
			syntax.LeadingStrings_LeftToRight, syntax.LeadingStrings_OrdinalIgnoreCase_LeftToRight, syntax.LeadingSet_LeftToRight,
			syntax.FixedDistanceChar_LeftToRight, syntax.FixedDistanceString_LeftToRight, syntax.FixedDistanceSets_LeftToRight,
			syntax.LiteralAfterLoop_LeftToRight, syntax.RequiredLandmarkChain_LeftToRight:
			optimized = true
		}
	}
	budget := c.N(260, 3000)
	if !optimized {
		budget = c.N(40, 400)
	}
	if !interesting {
		budget = 10
	}
	var all [][]rune
	allStrings(al, maxLen, func(s []rune) { all = append(all, s) })
	for i, s := range all {
		// all texts up to length 2 always; the rest sampled down to the budget
		if len(s) <= 2 || len(all) <= budget || c.Rng.Intn(len(all)) < budget {
			texts = append(texts, s)
		}
		_ = i
	}
	if interesting {
		nacc := c.N(6, 30)
		if !optimized {
			nacc = 3
		}
		for _, in := range accelInputs(c.Rng, p, nacc) {
			if len(in) > 14 {
				in = in[:14]
			}
			texts = append(texts, in)
		}
		if mode == "RequiredLandmarkChain_LeftToRight" || mode == "LiteralAfterLoop_LeftToRight" {
			for _, s := range []string{"ab@cd.com", "x=12", "ab12cd.ef", "a@b,c", "ab = 12;", "a-b=c", "a b1c", "ab12cd,ef", "q@r.s", "ab  =  7", "abx12yz;yz", "ab42cdyyz", "a1b.c", "xx-yy1zz", "a  = b", " a=b", "a =b", "ab :ba", "a : b", "c-ab=", "ab= c", "a\t xbc", "abcd", "a  bd", "xa \t xbd", "yabcd", "a   bd"} {
				texts = append(texts, []rune(s), append([]rune("zz "), []rune(s)...))
			}
		}
	}
	// oracle tables over every rune used
	universe := map[rune]bool{}
	for _, t := range texts {
		for _, ch := range t {
			universe[ch] = true
		}
	}
	var runes []rune
	for ch := range universe {
		runes = append(runes, ch)
	}
	sort.Slice(runes, func(i, j int) bool { return runes[i] < runes[j] })
	var lowEnc []int64
	nlow := 0
	for _, ch := range runes {
		if l := unicode.ToLower(ch); l != ch {
			lowEnc = append(lowEnc, int64(ch), int64(l))
			nlow++
		}
	}
	lowEnc = append([]int64{int64(nlow)}, lowEnc...)
	setEnc := []int64{int64(len(tbl.sets))}
	for _, s := range tbl.sets {
		var mem []rune
		for _, ch := range runes {
			if s.CharIn(ch) {
				mem = append(mem, ch)
			}
		}
		setEnc = append(setEnc, encRunes(mem)...)
	}
	an := int64(code.Anchors)
	for _, in := range texts {
		n := len(in)
		origins := []int{0}
		if rtl {
			origins[0] = n
		}
		if code.Anchors&syntax.AnchorStart != 0 && n > 0 {
			origins = append(origins, c.Rng.Intn(n+1))
		}
		for _, origin := range origins {
			enc := encRunes(in)
			enc = append(enc, lowEnc...)
			enc = append(enc, setEnc...)
			enc = append(enc, b2i(rtl), an, int64(origin))
			if bm := code.BmPrefix; bm != nil {
				enc = append(enc, 1, int64(n+1))
				for q := 0; q <= n; q++ {
					enc = append(enc, b2i(bm.IsMatch(in, q, 0, n)))
				}
				enc = append(enc, int64(n+1))
				for q := 0; q <= n; q++ {
					func() {
						defer func() {
							if r := recover(); r != nil {
								enc = append(enc, -2)
							}
						}()
						enc = append(enc, int64(bm.Scan(in, q, 0, n)))
					}()
				}
			} else {
				enc = append(enc, 0)
			}
			enc = append(enc, optsEnc...)
			enc = append(enc, fcEnc...)
			var out4, out5 []int64
			nontrivial := false
			for q := 0; q <= n; q++ {
				func() {
					defer func() {
						if r := recover(); r != nil {
							out4 = append(out4, 2, 0, 0, 0)
						}
					}()
					cut, found, np := re.VerifFindFirstChar(in, q, origin)
					out4 = append(out4, 0, b2i(cut), b2i(found), int64(np))
					if cut {
						seen["min-length-cut"]++
						return
					}
					if !found || np != q {
						nontrivial = true
					}
					if an&(1|4|16|32) != 0 {
						seen["anchors"]++
					} else if code.BmPrefix != nil {
						seen["boyer-moore-scan"]++
						if rtl {
							seen["boyer-moore-scan:rtl"]++
						}
					}
				}()
				if fo != nil {
					func() {
						defer func() {
							if r := recover(); r != nil {
								out5 = append(out5, 2, 0, 0, 0, 0)
							}
						}()
						should, handled, found, np := re.VerifFindFirstCharOptimized(in, q, origin)
						out5 = append(out5, 0, b2i(should), b2i(handled), b2i(found), int64(np))
						if handled {
							if !found {
								gaveUp[mode]++
							} else if np != q {
								moved[mode]++
							}
							if !should {
								seen["should-use:false-but-handled"]++
							}
						} else {
							seen["not-handled"]++
						}
						usesFc := an&(1|4|16|32) == 0 && code.BmPrefix == nil && !should && code.FcPrefix != nil
						if usesFc {
							if code.FcPrefix.PrefixSet.IsSingleton() {
								seen["first-char-loop:singleton"]++
							} else {
								seen["first-char-loop:set"]++
							}
							if rtl {
								seen["first-char-loop:rtl"]++
							}
						}
					}()
				}
			}
			desc := fmt.Sprintf("pattern %q opts=%s cg=%v%s mode=%s minlen=%d anchors=%#x bm=%v fc=%v text %+q origin=%d", p.pat, p.o, p.cg, tag, mode, minReqOf(fo), an, code.BmPrefix != nil, code.FcPrefix != nil, string(in), origin)
			c.Add(&Case{Desc: desc + " [VerifFindFirstChar at every position: per position 0/cut/found/Runtextpos]", ModelLeg: 304, ModelIn: enc, ImplOut: out4,
				Nontrivial: nontrivial, Key: desc, Class: "find-first-char"})
			if fo != nil && origin == origins[0] && (optimized || len(in) <= 3) {
				c.Add(&Case{Desc: desc + " [VerifFindFirstCharOptimized at every position: per position 0/should/handled/found/Runtextpos]", ModelLeg: 305, ModelIn: enc, ImplOut: out5,
					Nontrivial: nontrivial, Key: desc + "o", Class: "find-first-char-optimized"})
			}
		}
	}
}

func minReqOf(fo *syntax.FindOptimizations) int {
	if fo == nil {
		return 0
	}
	return fo.MinRequiredLength
}

// c03FinderSynthetic: branches of the finders that the analysis never selects today (ignore-case string
// after a loop, ignore-case prefix with a non-ASCII rune, ignore-case multi-prefix with few prefixes,
// case-sensitive multi-prefix without first runes) are reached by editing the FindOptimizations record
// of a privately compiled pattern.  The finder is then no longer sound for the pattern, which is
// irrelevant here: the leg compares the model of the finder with the finder on the same record.
func c03FinderSynthetic(c *Ctx, seen map[string]int) {
	type syn struct {
		pat  string
		cg   bool
		what string
		al   []rune
		edit func(fo *syntax.FindOptimizations) bool
	}
	syns := []syn{
		{`\d*ab`, false, "LiteralAfterLoop.StringIgnoreCase=true", []rune{'a', 'b', 'A', 'B', '1'}, func(fo *syntax.FindOptimizations) bool {
			if fo.LiteralAfterLoop == nil || fo.LiteralAfterLoop.String == "" {
				return false
			}
			fo.LiteralAfterLoop.StringIgnoreCase = true
			return true
		}},
		{`\d*ab`, false, "LiteralAfterLoop.String=\"\u00e9b\" StringIgnoreCase=true", []rune{'é', 'É', 'b', 'B', '1'}, func(fo *syntax.FindOptimizations) bool {
			if fo.LiteralAfterLoop == nil || fo.LiteralAfterLoop.String == "" {
				return false
			}
			fo.LiteralAfterLoop.String = "éb"
			fo.LiteralAfterLoop.StringIgnoreCase = true
			return true
		}},
		{`(?i)ab-c`, false, "LeadingPrefix=\"\u00e9a\"", []rune{'é', 'É', 'a', 'A', 'x'}, func(fo *syntax.FindOptimizations) bool {
			if fo.FindMode != syntax.LeadingString_OrdinalIgnoreCase_LeftToRight {
				return false
			}
			fo.LeadingPrefix = "éa"
			fo.MinRequiredLength = 2
			return true
		}},
		{`(?i)ab-c`, false, "LeadingPrefix=\"kk\" (ASCII folding: the Kelvin sign is not k)", []rune{'k', 'K', '\u212a', 'x'}, func(fo *syntax.FindOptimizations) bool {
			if fo.FindMode != syntax.LeadingString_OrdinalIgnoreCase_LeftToRight {
				return false
			}
			fo.LeadingPrefix = "kk"
			fo.MinRequiredLength = 2
			return true
		}},
		{`(?:abc|abd|xyz)\d`, true, "FindMode=LeadingStrings_OrdinalIgnoreCase_LeftToRight", []rune{'a', 'A', 'b', 'c', 'd', '1'}, func(fo *syntax.FindOptimizations) bool {
			if len(fo.LeadingPrefixesRunes) == 0 {
				return false
			}
			fo.FindMode = syntax.LeadingStrings_OrdinalIgnoreCase_LeftToRight
			return true
		}},
		{`(?:abc|abd|xyz)\d`, true, "LeadingPrefixFirstRunes=nil", []rune{'a', 'x', 'b', 'c', 'd', '1'}, func(fo *syntax.FindOptimizations) bool {
			if len(fo.LeadingPrefixesRunes) == 0 {
				return false
			}
			fo.FindMode = syntax.LeadingStrings_LeftToRight
			fo.LeadingPrefixFirstRunes = nil
			return true
		}},
		{`(?:abc|abd|xyz)\d`, true, "LeadingPrefixFirstRunes of four runes", []rune{'a', 'x', 'b', 'c', 'd'}, func(fo *syntax.FindOptimizations) bool {
			if len(fo.LeadingPrefixesRunes) == 0 {
				return false
			}
			fo.FindMode = syntax.LeadingStrings_LeftToRight
			fo.LeadingPrefixesRunes = [][]rune{[]rune("ab"), []rune("ba"), []rune("cd"), []rune("dc")}
			fo.LeadingPrefixFirstRunes = []rune("abcd")
			fo.MinRequiredLength = 2
			return true
		}},
		{`abc\w`, false, "FindMode=LeadingString_LeftToRight LeadingPrefix=\"a\U0001f600\"", []rune{'a', '😀', 'b'}, func(fo *syntax.FindOptimizations) bool {
			fo.FindMode = syntax.LeadingString_LeftToRight
			fo.LeadingPrefix = "a😀"
			fo.MinRequiredLength = 3
			return true
		}},
		{`a.c`, false, "MinRequiredLength=0", []rune{'a', 'c', 'x'}, func(fo *syntax.FindOptimizations) bool {
			fo.MinRequiredLength = 0
			return true
		}},
		{`[ab].[cd]`, true, "MinRequiredLength=5", []rune{'a', 'c', 'x'}, func(fo *syntax.FindOptimizations) bool {
			fo.MinRequiredLength = 5
			return true
		}},
	}
	for _, sy := range syns {
		p := patCase{pat: sy.pat, alpha: sy.al, cg: sy.cg}
		re, err := p.compile()
		if err != nil {
			continue
		}
		fo := re.VerifCode().FindOptimizations
		if fo == nil || !sy.edit(fo) {
			continue
		}
		local := map[string]int{}
		c03FinderPattern(c, p, re, " [synthetic FindOptimizations: "+sy.what+"]", sy.al, local, map[string]int{}, map[string]int{}, map[string]int{})
		for k, v := range local {
			seen["synthetic:"+k] += v
		}
		seen["synthetic"]++
	}
}

// c03FinderHelpers: the helpers/indexof.go functions the finders call, compared directly with their
// models (leg 307) on short random inputs over a tiny alphabet with upper/lower-case pairs, a rune
// whose lower case is ASCII (Kelvin sign) and a non-ASCII pair.
func c03FinderHelpers(c *Ctx) {
	al := []rune{'a', 'A', 'b', 'k', 'K', '\u212a', '\u00e9', '\u00c9', 'Z', '['}
	n := c.N(4000, 60000)
	for i := 0; i < n; i++ {
		sub := al[:2+c.Rng.Intn(len(al)-1)]
		in := randString(c.Rng, sub, 7)
		find := randString(c.Rng, sub, 3)
		if c.Rng.Chance(40) && len(in) > 0 {
			// plant a (possibly case-changed) occurrence
			at := c.Rng.Intn(len(in))
			for j, ch := range find {
				if at+j < len(in) {
					if c.Rng.Chance(30) {
						ch = unicode.ToUpper(ch)
					}
					in[at+j] = ch
				}
			}
		}
		a, b := Pick(c.Rng, sub), Pick(c.Rng, sub)
		fn := 1 + c.Rng.Intn(12)
		if fn == 4 && len(find) == 0 {
			fn = 3
		}
		var out []int64
		func() {
			defer func() {
				if r := recover(); r != nil {
					out = []int64{2, 0}
				}
			}()
			var v int
			switch fn {
			case 1:
				v = helpers.IndexOfAny(in, find)
			case 2:
				v = helpers.IndexOfAny1(in, a)
			case 3:
				v = helpers.IndexOfAny2(in, a, b)
			case 4:
				v = helpers.IndexOfAny3(in, a, b, find[0])
			case 5:
				v = helpers.IndexOfAnyInRange(in, a, b)
			case 6:
				v = helpers.IndexOfAnyExcept(in, find)
			case 7:
				v = helpers.IndexOfAnyExceptInRange(in, a, b)
			case 8:
				v = helpers.IndexOf(in, find)
			case 9:
				v = helpers.IndexOfIgnoreCase(in, find)
			case 10:
				v = helpers.IndexOfIgnoreCaseAscii(in, find)
			case 11:
				v = int(b2i(helpers.StartsWith(in, find)))
			case 12:
				v = int(b2i(helpers.StartsWithIgnoreCase(in, find)))
			}
			out = []int64{0, int64(v)}
		}()
		var lowEnc []int64
		nlow := 0
		for _, ch := range in {
			if l := unicode.ToLower(ch); l != ch {
				lowEnc = append(lowEnc, int64(ch), int64(l))
				nlow++
			}
		}
		enc := append([]int64{int64(fn), int64(nlow)}, lowEnc...)
		enc = append(enc, encRunes(in)...)
		enc = append(enc, encRunes(find)...)
		enc = append(enc, int64(a), int64(b))
		names := []string{"", "IndexOfAny", "IndexOfAny1", "IndexOfAny2", "IndexOfAny3", "IndexOfAnyInRange", "IndexOfAnyExcept", "IndexOfAnyExceptInRange", "IndexOf", "IndexOfIgnoreCase", "IndexOfIgnoreCaseAscii", "StartsWith", "StartsWithIgnoreCase"}
		c.Add(&Case{Desc: fmt.Sprintf("helpers.%s(in=%+q, find=%+q, a=%+q, b=%+q)", names[fn], string(in), string(find), a, b), ModelLeg: 307, ModelIn: enc, ImplOut: out,
			Nontrivial: out[0] == 0 && out[1] > 0, Class: "helper:" + names[fn]})
	}
}
