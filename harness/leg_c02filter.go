package main

// c02-filter: the raw-string prefilter of stringprefixfilter.go and the glue of the string entry
// points (regexp.go), modelled in coq/Model/Entry.v, compared with the implementation:
//   201  "was a filter built for this program" = VerifHasStringPrefixFilter
//   202  filter(input, startAt) = VerifStringPrefixFilter for EVERY string of up to L symbols over a
//        per-pattern alphabet (the literals' letters, a two-byte rune, a truncated sequence, 0xff,
//        U+FFFD) and every startAt in -1 .. len+1
//   203  the kind of filter the model selected (coverage gates only)
//   204  FindStringMatch / MatchString / FindStringMatchStartingAt (every startAt -2 .. len+1, incl.
//        off-boundary and out-of-range ones) computed by the glue model from the table of the engine's
//        answers FindRunesMatchStartingAt(r, k), k = 0..len(r)

import (
	"fmt"
	"os"
	"strings"
	"time"
	"unicode/utf8"

	"github.com/dlclark/regexp2/v2"
	"github.com/dlclark/regexp2/v2/syntax"
)

func init() {
	registerLeg("c02-filter", "C02", legC02Filter)
}

// shapes aimed at each filter constructor and at each way it declines
var c02FilterShapes = []string{
	// stringIndexPrefixFilter
	`abc\w+`, `abcd`, `ab+c`, `abab\w`, `aba`, `abcab`, `aab`, `éa\d`, `aé+`, `a😀b`, `😀😀`, `ab\b`, `ab$`, `(?<=x)ab`, `(?<!x)ab`, `\bab`, `\Bab`,
	`ab(?<=^ab)`, `(?m)^ab`, `ab(?=c)`, `(ab)\1`, `ab|ab`, `abc|abd`, `€a|₭b`, `€a|€b`, `a\x{fffd}`, `\x{fffd}\x{fffd}`, `ab\x{fffd}*`, `a\x{D800}b`, `ab\x{D800}`,
	`a{3}`, `a{2,}b`, `(?:ab){2}`, `(?:ab*){2}`, `ab\G`, `ab(?!\G)`, `(?=\G)abc`, `\G{2}abc`, `ab(?<=\Gab)c`,
	// ... ordinal ignore case
	`(?i)abc\d`, `(?i)ab[cd]`, `(?i)abab`, `(?i)ke\d`, `(?i)ks`, `(?i)sk`, `(?i)a1b`, `(?i)éa`, `(?i)aé`, `(?i)ab\x{fffd}`, `(?i)12`, `(?i)a-b`, `(?i)zk`, `(?i)za\d`, `(?i)az`, `(?i)Zz`, `(?i)@z`, `(?i)[a-c]*z@`, `(?i)(?:za|zb)c`,
	// stringIndexPrefixesFilter (analysis mode), both scanners
	`(?:abc|abd|xyz)\d`, `(?i)(?:abc|xbd)\w`, `abc|abd|ab`, `(abc|def)+x`, `abc|abd|xyz`, `ab|ac|ad`, `ab|cd`, `ab|cd|ce`, `aé|ab`, `éa|éb`, `ab|a\x{fffd}`, `(?i)ab|cd`, `(?i)ke|ka`,
	`ab|ba`, `aa|ab|ba|bb`, `abc|ab|a`, `(?:ab|ac)\G`, `ab1|ab2|b`,
	// stringFixedDistanceSetFilter / asciiSetStringScanner
	`[abc]\d`, `[a-c]+`, `[ab]b`, `a|b|c`, `[ab]`, `[a-c]x`, `[aé]b`, `[a-é]`, `[^a]b`, `[ab]\G`, `[abcde]x`, `[abcdef]x`, `[a\x{fffd}]b`, `[\x{fff0}-\x{ffff}]`, `(?i)[ab]1`, `\d+x`, `[0-9]a`, `\d`, `\s`, `[ab]{2,}c`, `[a-b][c-d]`,
	// stringFixedDistanceCharFilter
	`.b`, `..b`, `\w\wc`, `.é`, `..é`, `.😀`, `a`, `é`, `\x{fffd}`, `.\x{fffd}`, `.a\G`, `[^b]a`, `\d\da`, `(?s).a`, `(?s)..a`, `.{2}a.`, `(?s).{3}b`, `\x{D800}`, `.\x{D800}`,
	// stringFixedDistanceStringFilter
	`..abc`, `.ab`, `\dab`, `(?s).ab`, `(?s)..ab`, `.éa`, `.aé`, `..a😀`, `.abcdefgh`, `.abcdefghi`, `.a\x{fffd}`, `.ab\G`, `\w\w\wab`, `[ab]cd`, `.aa`, `(?s).aa`, `(?s)..aba`,
	// stringLiteralAfterLoopFilter
	`\w*@x`, `[^,]*,`, `a*b`, `\s*=`, `[ab]*c+d`, `\w+:`, `(?>a*)b`, `a*é`, `a*éb`, `a*[bé]`, `a*\x{fffd}`, `a*b\x{fffd}`, `a*b\G`, `(?i)a*bc`, `(?i)a*b`, `(?i)[ab]*ke`, `[ab]*[cd]`, `[ab]*cd`, `a*[b-c]`, `\d*a`, `\d*ab`, `[^a]*a`,
	// no filter: anchors, right-to-left (added below), other modes
	`^abc`, `\Aab+c`, `\Gab`, `abc$`, `ab\z`, `\w+@\w+\.com`, `[a-z]+ = [0-9]+;`, `(?=ab)a.`, `(?=abc)\w+`, `(?=a)\w+`, `$`, `\z`, ``, `a?`, `(?:)`, `x*`,
}

// one symbol of an input alphabet: a byte chunk
type byteSym []byte

func encByteStr(b []byte) []int64 {
	out := make([]int64, 0, len(b)+1)
	out = append(out, int64(len(b)))
	for _, x := range b {
		out = append(out, int64(x))
	}
	return out
}

// the data newStringPrefixFilter reads, in the wire order of Extract/Drv02.d_code
func encFilterCode(code *syntax.Code) []int64 {
	out := []int64{b2i(code.RightToLeft), int64(len(code.Codes))}
	for _, w := range code.Codes {
		out = append(out, int64(w))
	}
	fo := code.FindOptimizations
	if fo == nil {
		return append(out, 0)
	}
	out = append(out, 1, int64(fo.FindMode), int64(fo.MinRequiredLength))
	out = append(out, encByteStr([]byte(fo.LeadingPrefix))...)
	out = append(out, int64(len(fo.LeadingPrefixes)))
	for _, p := range fo.LeadingPrefixes {
		out = append(out, encByteStr([]byte(p))...)
	}
	out = append(out, encByteStr([]byte(fo.FixedDistanceLiteral.S))...)
	out = append(out, int64(fo.FixedDistanceLiteral.C), int64(fo.FixedDistanceLiteral.Distance))
	out = append(out, int64(len(fo.FixedDistanceSets)))
	for _, s := range fo.FixedDistanceSets {
		out = append(out, encRunes(s.Chars)...)
		out = append(out, b2i(s.Negated))
		if s.Range != nil {
			out = append(out, 1, int64(s.Range.First), int64(s.Range.Last))
		} else {
			out = append(out, 0, 0, 0)
		}
		out = append(out, int64(s.Distance))
	}
	if l := fo.LiteralAfterLoop; l != nil {
		out = append(out, 1)
		out = append(out, encByteStr([]byte(l.String))...)
		out = append(out, b2i(l.StringIgnoreCase), int64(l.Char))
		out = append(out, encRunes(l.Chars)...)
		out = append(out, b2i(l.LoopNode != nil && l.LoopNode.Set != nil))
	} else {
		out = append(out, 0)
	}
	return out
}

// letters the published facts talk about (the filter's needles), in order of appearance
func c02FactRunes(fo *syntax.FindOptimizations) []rune {
	var out []rune
	add := func(rs ...rune) {
		for _, r := range rs {
			if !containsRune(out, r) {
				out = append(out, r)
			}
		}
	}
	if fo == nil {
		return nil
	}
	add([]rune(fo.LeadingPrefix)...)
	for _, p := range fo.LeadingPrefixes {
		add([]rune(p)...)
	}
	add([]rune(fo.FixedDistanceLiteral.S)...)
	if fo.FixedDistanceLiteral.C != 0 {
		add(fo.FixedDistanceLiteral.C)
	}
	for _, s := range fo.FixedDistanceSets {
		add(s.Chars...)
		if s.Range != nil {
			add(s.Range.First, s.Range.Last)
		}
	}
	if l := fo.LiteralAfterLoop; l != nil {
		add([]rune(l.String)...)
		add(l.Chars...)
		if l.Char != 0 {
			add(l.Char)
		}
	}
	return out
}

var c02FoldMates = map[rune][]rune{'k': {'K', 0x212A}, 'K': {'k', 0x212A}, 's': {'S', 0x17F}, 'S': {'s', 0x17F}}

// alphabet of byte chunks for one pattern: up to three fact letters (as encoded; a multi-byte one also
// truncated), a case/fold mate, a foreign letter, then é, a lone lead byte, 0xff and U+FFFD
func c02Alphabet(r *Rng, fo *syntax.FindOptimizations, ci bool, budget int) []byteSym {
	var syms []byteSym
	seen := map[string]bool{}
	add := func(b []byte) {
		if len(b) > 0 && !seen[string(b)] && len(syms) < budget {
			seen[string(b)] = true
			syms = append(syms, byteSym(b))
		}
	}
	letters := c02FactRunes(fo)
	var valid []rune
	for _, l := range letters {
		if utf8.ValidRune(l) {
			valid = append(valid, l)
		}
	}
	// keep the first two and one random other
	pick := valid
	if len(pick) > 3 {
		pick = append(append([]rune{}, valid[:2]...), valid[2+r.Intn(len(valid)-2)])
	}
	for _, l := range pick {
		add([]byte(string(l)))
	}
	for _, l := range pick {
		if utf8.RuneLen(l) > 1 {
			e := []byte(string(l))
			add(e[:len(e)-1]) // truncated sequence of a fact letter
			break
		}
	}
	if ci || r.Chance(30) {
		mates := 0
		for _, l := range pick {
			if mates == 2 {
				break
			}
			if m, ok := c02FoldMates[l]; ok {
				add([]byte(string(m[0])))
				add([]byte(string(m[1])))
				mates++
			} else if 'a' <= l && l <= 'z' {
				add([]byte{byte(l - 32)})
				mates++
			} else if 'A' <= l && l <= 'Z' {
				add([]byte{byte(l + 32)})
				mates++
			}
		}
	}
	if len(syms) < 3 {
		add([]byte("x"))
	}
	// the rest of the budget: U+FFFD, an invalid byte, a two-byte rune, a lone lead byte, a stray continuation byte, a digit
	extras := [][]byte{{0xef, 0xbf, 0xbd}, {0xff}, []byte("é"), {0xc3}, {0xa9}, []byte("1")}
	for i := len(extras) - 1; i > 0; i-- {
		j := r.Intn(i + 1)
		extras[i], extras[j] = extras[j], extras[i]
	}
	for _, e := range extras {
		if len(syms) >= budget {
			break
		}
		add(e)
	}
	return syms
}

func c02AllByteStrings(alpha []byteSym, maxLen int, f func([]byte)) {
	var cur []byte
	var rec func(n int)
	rec = func(n int) {
		if n == 0 {
			f(cur)
			return
		}
		for _, s := range alpha {
			l := len(cur)
			cur = append(cur, s...)
			rec(n - 1)
			cur = cur[:l]
		}
	}
	for n := 0; n <= maxLen; n++ {
		rec(n)
	}
}

func c02Answer(idx int, ok bool) int64 {
	if ok {
		return int64(idx)
	}
	return int64(-1 - idx)
}

var c02KindNames = map[int64]string{0: "none", 1: "index-prefix", 2: "index-prefix-ignorecase", 3: "prefixes-fallback", 4: "prefixes-fallback-ignorecase",
	5: "ascii-string-set", 6: "fixed-distance-set", 7: "fixed-distance-char", 8: "fixed-distance-string", 9: "literal-after-loop"}

type c02Pat struct {
	p    patCase
	re   *regexp2.Regexp
	code []int64
	desc string
	kind int64
	has  bool
}

func c02Found(m *regexp2.Match, err error) []int64 {
	if err != nil {
		msg := err.Error()
		switch {
		case strings.Contains(msg, "less than the length"):
			return []int64{1, 1}
		case strings.Contains(msg, "align to the start of a valid rune"):
			return []int64{1, 2}
		}
		return []int64{1, 99}
	}
	if m == nil {
		return []int64{0, 0}
	}
	return []int64{0, 1, int64(m.RuneIndex), int64(m.RuneLength)}
}

func legC02Filter(c *Ctx) {
	c.Rule("patterns: shapes aimed at each prefilter constructor and each way it declines (anchors, \\G anywhere, U+FFFD / invalid bytes / surrogates in a literal, non-ASCII under IgnoreCase, negated or large sets, long literals, right-to-left) x {LTR,RTL} x {code-gen analysis off,on}, the FindMode shapes of c03-accel, random ASTs over the full generator syntax; for each compiled program the data newStringPrefixFilter reads is exported and the extracted model must reproduce (201) whether a filter exists and (202) filter(input,startAt) for EVERY string of <= 4-5 symbols over a per-pattern alphabet of byte chunks (fact letters, their truncations and case/fold mates, 'é', a lone lead byte, 0xff, U+FFFD) and every startAt in -1..len+1; (204) FindStringMatch, MatchString, FindStringMatchStartingAt at every startAt -2..len+1 from the glue model over the table of the engine's own answers per rune start; direct: string entry != rune entry; non-trivial = the filter moves the start or rejects (distinct by pattern,input,startAt)")
	// the mode numbers Model/Entry.v uses
	for name, pair := range map[string][2]int{
		"LeadingString_LeftToRight":                    {int(syntax.LeadingString_LeftToRight), 11},
		"LeadingString_OrdinalIgnoreCase_LeftToRight":  {int(syntax.LeadingString_OrdinalIgnoreCase_LeftToRight), 13},
		"LeadingStrings_LeftToRight":                   {int(syntax.LeadingStrings_LeftToRight), 14},
		"LeadingStrings_OrdinalIgnoreCase_LeftToRight": {int(syntax.LeadingStrings_OrdinalIgnoreCase_LeftToRight), 15},
		"LeadingSet_LeftToRight":                       {int(syntax.LeadingSet_LeftToRight), 16},
		"FixedDistanceChar_LeftToRight":                {int(syntax.FixedDistanceChar_LeftToRight), 19},
		"FixedDistanceString_LeftToRight":              {int(syntax.FixedDistanceString_LeftToRight), 20},
		"LiteralAfterLoop_LeftToRight":                 {int(syntax.LiteralAfterLoop_LeftToRight), 22},
	} {
		if pair[0] != pair[1] {
			c.Add(&Case{Desc: "FindMode constant " + name, Direct: fmt.Sprintf("is %d, Model/Entry.v assumes %d", pair[0], pair[1])})
		}
	}

	var pcs []patCase
	for _, s := range c02FilterShapes {
		for _, cg := range []bool{false, true} {
			pcs = append(pcs, patCase{pat: s, cg: cg})
		}
		if !strings.Contains(s, `\G`) {
			pcs = append(pcs, patCase{pat: s, o: Opts{RTL: true}})
		}
	}
	for _, p := range shapePatterns(c.Rng) {
		if !p.o.RTL || c.Rng.Chance(15) {
			pcs = append(pcs, p)
		}
	}
	pcs = append(pcs, genPatterns(c.Rng, c.N(1500, 30000), true)...)

	var pats []*c02Pat
	dedup := map[string]bool{}
	for _, p := range pcs {
		desc := fmt.Sprintf("pattern %q opts=%s cg=%v", p.pat, p.o, p.cg)
		if dedup[desc] {
			continue
		}
		dedup[desc] = true
		var re *regexp2.Regexp
		var err error
		func() {
			defer func() {
				if e := recover(); e != nil {
					c.Add(&Case{Desc: desc, Direct: fmt.Sprintf("compiling panicked: %v", e), Class: "panic"})
					re = nil
				}
			}()
			re, err = p.compile()
		}()
		if re == nil || err != nil {
			continue
		}
		code := re.VerifCode()
		cp := &c02Pat{p: p, re: re, code: encFilterCode(code), desc: desc, has: re.VerifHasStringPrefixFilter()}
		pats = append(pats, cp)
		c.Add(&Case{Desc: desc + ": is a raw-string prefilter built", ModelLeg: 201, ModelIn: cp.code, ImplOut: []int64{0, b2i(cp.has)},
			Nontrivial: cp.has, Key: desc, Class: fmt.Sprintf("has-filter=%v", cp.has)})
	}

	// which filter the model selected (for the coverage gates and the histogram)
	{
		legs := make([]int, len(pats))
		ins := make([][]int64, len(pats))
		for i, cp := range pats {
			legs[i], ins[i] = 203, cp.code
		}
		outs, err := runModel(c.ModelBin, legs, ins)
		if err != nil {
			c.Add(&Case{Desc: "model leg 203 (filter kind)", Direct: "model execution failed: " + err.Error()})
			return
		}
		for i, cp := range pats {
			cp.kind = -1
			if len(outs[i]) == 1 {
				cp.kind = outs[i][0]
			}
		}
	}
	kinds := map[int64]int{}
	declined := map[string]int{}
	for _, cp := range pats {
		kinds[cp.kind]++
		if cp.kind == 0 {
			fo := cp.re.VerifCode().FindOptimizations
			code := cp.re.VerifCode()
			switch {
			case code.RightToLeft:
				declined["right-to-left"]++
			case code.HasOpcode(syntax.Start):
				declined["start-anchor-opcode"]++
			case fo != nil && (fo.FindMode == syntax.LeadingString_LeftToRight || fo.FindMode == syntax.LeadingStrings_LeftToRight ||
				fo.FindMode == syntax.FixedDistanceChar_LeftToRight || fo.FindMode == syntax.FixedDistanceString_LeftToRight ||
				fo.FindMode == syntax.LiteralAfterLoop_LeftToRight || fo.FindMode == syntax.LeadingSet_LeftToRight ||
				fo.FindMode == syntax.LeadingString_OrdinalIgnoreCase_LeftToRight || fo.FindMode == syntax.LeadingStrings_OrdinalIgnoreCase_LeftToRight):
				declined["filterable-mode-declined"]++
			default:
				declined["other-mode"]++
			}
		}
	}

	tPhase := time.Now()
	phase := func(name string) {
		if os.Getenv("VERIF_C02_TIMING") != "" {
			fmt.Fprintf(os.Stderr, "c02-filter %s: %.1fs\n", name, time.Since(tPhase).Seconds())
		}
		tPhase = time.Now()
	}
	phase("compile+kinds")
	// ---- 202: exhaustive filter tables ----
	bigDone, shapeDone, genDone, tabulated := map[int64]int{}, map[int64]int{}, map[int64]int{}, map[string]bool{}
	capShape, capGen := c.N(13, 25), c.N(9, 25)
	evals, nontrivial, mismatches := 0, 0, 0
	type chunk struct {
		cp    *c02Pat
		strs  [][]byte
		impl  []int64
		alpha string
	}
	var chunks []chunk
	flushChunks := func() {
		if len(chunks) == 0 {
			return
		}
		legs := make([]int, len(chunks))
		ins := make([][]int64, len(chunks))
		for i, ch := range chunks {
			legs[i] = 202
			in := append([]int64{}, ch.cp.code...)
			in = append(in, int64(len(ch.strs)))
			for _, s := range ch.strs {
				in = append(in, encByteStr(s)...)
			}
			ins[i] = in
		}
		outs, err := runModel(c.ModelBin, legs, ins)
		if err != nil {
			c.Add(&Case{Desc: "model leg 202 (filter tables)", Direct: "model execution failed: " + err.Error()})
			chunks = nil
			return
		}
		for i, ch := range chunks {
			c.res.ModelEvals += len(ch.impl)
			if eqInts(outs[i], ch.impl) {
				continue
			}
			// locate the disagreeing strings and report each as its own small case
			pos := 0
			for _, s := range ch.strs {
				n := len(s) + 3
				bad := pos+n > len(outs[i])
				if !bad {
					bad = !eqInts(outs[i][pos:pos+n], ch.impl[pos:pos+n])
				}
				if bad && mismatches < 12 {
					mismatches++
					in := append([]int64{}, ch.cp.code...)
					in = append(in, 1)
					in = append(in, encByteStr(s)...)
					c.Add(&Case{Desc: fmt.Sprintf("%s (model filter kind %s): prefilter(%+q, startAt) for startAt = -1..%d, answers coded idx | -1-idx when !ok", ch.cp.desc, c02KindNames[ch.cp.kind], string(s), len(s)+1),
						ModelLeg: 202, ModelIn: in, ImplOut: append([]int64{}, ch.impl[pos:pos+n]...), Class: "filter-table-mismatch"})
				}
				pos += n
			}
		}
		chunks = nil
	}
	sampleDescs := 0
	for _, cp := range pats {
		if !cp.has {
			continue
		}
		fo := cp.re.VerifCode().FindOptimizations
		ci := fo.FindMode == syntax.LeadingString_OrdinalIgnoreCase_LeftToRight || fo.FindMode == syntax.LeadingStrings_OrdinalIgnoreCase_LeftToRight ||
			(fo.LiteralAfterLoop != nil && fo.LiteralAfterLoop.StringIgnoreCase)
		// the filter only depends on the FindOptimizations part of the data: tabulate each distinct record once
		key := fmt.Sprint(cp.code[2+len(cp.re.VerifCode().Codes):])
		if tabulated[key] {
			continue
		}
		// quick: the first pattern of each kind gets all strings of <= 5 symbols, then up to capShape shapes and
		// capGen generated patterns per kind get all strings of <= 4 symbols (thorough: 6 and 5 symbols, larger caps)
		maxLen, budget := c.N(4, 5), 6
		if bigDone[cp.kind] == 0 {
			maxLen++
			bigDone[cp.kind]++
		} else if cp.p.ast == nil {
			if shapeDone[cp.kind] >= capShape {
				continue
			}
			shapeDone[cp.kind]++
		} else {
			if genDone[cp.kind] >= capGen {
				continue
			}
			genDone[cp.kind]++
		}
		tabulated[key] = true
		alpha := c02Alphabet(c.Rng, fo, ci, budget)
		var names []string
		for _, a := range alpha {
			names = append(names, fmt.Sprintf("%+q", string(a)))
		}
		alphaStr := strings.Join(names, ",")
		c.Hist("tables:" + c02KindNames[cp.kind])
		cur := chunk{cp: cp, alpha: alphaStr}
		c02AllByteStrings(alpha, maxLen, func(s []byte) {
			str := string(s)
			moved := false
			for st := -1; st <= len(s)+1; st++ {
				idx, ok := cp.re.VerifStringPrefixFilter(str, st)
				cur.impl = append(cur.impl, c02Answer(idx, ok))
				if st >= 0 && st <= len(s) && (!ok || idx != st) {
					moved = true
				}
				evals++
			}
			if moved {
				nontrivial++
			}
			cur.strs = append(cur.strs, append([]byte{}, s...))
			if len(cur.strs) >= 600 {
				chunks = append(chunks, cur)
				cur = chunk{cp: cp, alpha: alphaStr}
			}
		})
		if len(cur.strs) > 0 {
			chunks = append(chunks, cur)
		}
		if sampleDescs < 6 {
			sampleDescs++
			c.res.Samples = append(c.res.Samples, fmt.Sprintf("%s: %s filter on all strings of <= %d symbols over {%s}, every startAt", cp.desc, c02KindNames[cp.kind], maxLen, alphaStr))
		}
		if len(chunks) >= 400 {
			flushChunks()
		}
	}
	flushChunks()
	c.res.Evaluations += evals
	c.res.Distinct += nontrivial
	c.res.Histogram["filter-answers-compared"] = evals
	c.res.Histogram["inputs-where-filter-moves-or-rejects"] = nontrivial

	phase("tables")
	// ---- 204: the glue ----
	glue := map[string]int{}
	for _, cp := range pats {
		if !cp.has && !c.Rng.Chance(c.N(12, 40)) {
			continue
		}
		if cp.p.ast != nil && !c.Rng.Chance(c.N(25, 80)) {
			continue
		}
		fo := cp.re.VerifCode().FindOptimizations
		alpha := c02Alphabet(c.Rng, fo, true, 6)
		var inputs [][]byte
		c02AllByteStrings(alpha, 2, func(s []byte) { inputs = append(inputs, append([]byte{}, s...)) })
		for k := 0; k < c.N(40, 200); k++ {
			var s []byte
			for n := 3 + c.Rng.Intn(3); n > 0; n-- {
				s = append(s, Pick(c.Rng, alpha)...)
			}
			inputs = append(inputs, s)
		}
		for _, s := range inputs {
			str := string(s)
			r := []rune(str)
			offs := runeByteOffsets(str)
			in := append([]int64{}, cp.code...)
			in = append(in, encByteStr(s)...)
			in = append(in, int64(len(r)+1))
			table := make([][]int64, len(r)+1)
			timeout := false
			for k := 0; k <= len(r); k++ {
				m, err := cp.re.FindRunesMatchStartingAt(r, k)
				if err != nil {
					timeout = true
					break
				}
				if m == nil {
					table[k] = []int64{0}
				} else {
					table[k] = []int64{1, int64(m.RuneIndex), int64(m.RuneLength)}
				}
				in = append(in, table[k]...)
			}
			if timeout {
				glue["timeout-skipped"]++
				continue
			}
			var bad []string
			var out []int64
			func() {
				defer func() {
					if e := recover(); e != nil {
						bad = append(bad, fmt.Sprintf("panic: %v", e))
					}
				}()
				m0, e0 := cp.re.FindStringMatch(str)
				f0 := c02Found(m0, e0)
				out = append(out, f0...)
				def := 0
				if cp.p.o.RTL {
					def = len(r)
				}
				if e0 != nil && f0[1] == 99 {
					timeout = true
					return
				}
				if !eqInts(f0, append([]int64{0}, table[def]...)) {
					bad = append(bad, fmt.Sprintf("FindStringMatch %v != FindRunesMatch %v", f0, table[def]))
				}
				ok, e1 := cp.re.MatchString(str)
				if e1 != nil {
					timeout = true
					return
				}
				out = append(out, 0, b2i(ok))
				if ok != (table[def][0] == 1) {
					bad = append(bad, fmt.Sprintf("MatchString %v but FindRunesMatch %v", ok, table[def]))
				}
				for st := -2; st <= len(s)+1; st++ {
					m, e := cp.re.FindStringMatchStartingAt(str, st)
					f := c02Found(m, e)
					if e != nil && f[1] == 99 {
						timeout = true
						return
					}
					out = append(out, f...)
					for k, o := range offs {
						if o == st && !eqInts(f, append([]int64{0}, table[k]...)) {
							bad = append(bad, fmt.Sprintf("FindStringMatchStartingAt(byte %d) %v != FindRunesMatchStartingAt(rune %d) %v", st, f, k, table[k]))
						}
					}
				}
			}()
			if timeout {
				glue["timeout-skipped"]++
				continue
			}
			cs := &Case{Desc: fmt.Sprintf("%s input %+q: string entry points vs the engine's answers per rune start", cp.desc, str), ModelLeg: 204, ModelIn: in, ImplOut: out,
				Nontrivial: table[0][0] == 1, Class: "glue:" + c02KindNames[cp.kind]}
			if len(bad) > 0 {
				cs.Direct = strings.Join(bad, " | ")
				cs.ModelLeg = 0
			}
			glue[cs.Class]++
			c.Add(cs)
		}
	}

	c.Flush()
	phase("glue")
	for k := int64(1); k <= 9; k++ {
		c.Gate("filter kind "+c02KindNames[k]+" selected and tabulated", kinds[k] > 0 && c.res.Histogram["tables:"+c02KindNames[k]] > 0)
	}
	for _, d := range []string{"right-to-left", "start-anchor-opcode", "filterable-mode-declined", "other-mode"} {
		c.Gate("constructor declines: "+d, declined[d] > 0)
		c.res.Histogram["declined:"+d] = declined[d]
	}
	c.Gate("filter moves the start or rejects on some input", nontrivial > 0)
	for k, v := range kinds {
		c.res.Histogram["kind:"+c02KindNames[k]] = v
	}
	for k, v := range glue {
		c.res.Histogram[k] = v
	}
}
