package main

// C14 — timeouts fire, only when due, and the clock cleans up.
//
// Leg c14-clock records timed histories on the real clock (period 1 ms): timed catastrophic, medium
// and quick matches, groups of 4 concurrent timed matches, idle gaps shorter and longer than
// timeout + the one-second slop, StopTimeoutClock.  Every start/end gets a wall-clock stamp, after
// every step the hook snapshots (current, clockEnd, running, start != 0) and runtime.Stack tells
// whether the clock goroutine exists.  The extracted model (leg 1401) replays the stamps with
// Model.Clock.step and must (a) agree on the state abstraction within the proved tolerances and
// (b) find every outcome (timed out or not, latency) inside the proved interval.

import (
	"fmt"
	"math"
	"runtime"
	"sort"
	"strings"
	"sync"
	"sync/atomic"
	"time"

	"github.com/dlclark/regexp2/v2"
)

func init() { registerLeg("c14-clock", "C14", legC14Clock) }

const (
	c14Lag      = int64(25 * time.Millisecond)  // lag parameter the model is run with
	c14Margin   = int64(150 * time.Millisecond) // matcher goroutine's own scheduling + harness overhead (upper bounds only)
	c14Tick     = int64(1 << 20)
	c14Boundary = int64(300 * time.Millisecond) // keep snapshots this far from the predicted exit of the clock goroutine
)

const (
	c14Quick = iota
	c14Medium
	c14Cat
)

var c14KindName = []string{"quick", "medium", "catastrophic"}

type c14Match struct {
	id       int
	d        time.Duration
	kind     int
	b, f     int64
	timedOut bool
	other    string // unexpected error text
}

type c14Hist struct {
	rng                  *Rng // every random choice of one history comes from here, so that a history can be run again
	origin               time.Time
	events               []int64
	nEvents              int
	desc                 []string
	nextID               int
	stall                int64 // largest scheduling stall witnessed so far in this history
	prevStall, stepStall int64 // stalls witnessed during the previous step and the one before
	exitAt               int64 // predicted real time (history clock) at which the clock goroutine exits; 0 = not running
	direct               []string
	aborted              bool
	// inputs
	quickIn, medIn, catIn                                             string
	res                                                               map[time.Duration][]*regexp2.Regexp
	c                                                                 *Ctx
	sawTimeout, sawExit, sawRestart, sawStop, sawGroup, sawStaleStart int
}

func (h *c14Hist) now() int64 { return int64(time.Since(h.origin)) }

// An independent witness of the lag assumption: a goroutine that sleeps one clock period in a loop
// (exactly what runClock does) and records how late it wakes.  The theorems are about lag-timely
// schedules; when the machine stalls this process for longer than the lag the model is run with,
// the observed stall is added to the lag used for the affected checks instead of raising an alarm.
var c14MaxGap atomic.Int64

func c14Heartbeat(stop <-chan struct{}) {
	for {
		select {
		case <-stop:
			return
		default:
		}
		t := time.Now()
		time.Sleep(time.Millisecond)
		gap := int64(time.Since(t) - time.Millisecond)
		for {
			old := c14MaxGap.Load()
			if gap <= old || c14MaxGap.CompareAndSwap(old, gap) {
				break
			}
		}
	}
}

// stall observed since the last call (0 when below a quarter of the lag)
func c14TakeStall() int64 {
	g := c14MaxGap.Swap(0)
	if g < c14Lag/4 {
		return 0
	}
	return g
}

func c14ClockGoroutine() bool {
	buf := make([]byte, 1<<16)
	for {
		n := runtime.Stack(buf, true)
		if n < len(buf) {
			return strings.Contains(string(buf[:n]), "regexp2/v2.runClock")
		}
		buf = make([]byte, 2*len(buf))
	}
}

func (h *c14Hist) snap(what string) {
	var cur, ce, since int64
	var run, started, present bool
	var p int64
	for try := 0; try < 3; try++ {
		cur, ce, run, started, since = regexp2.VerifClockSnapshot()
		p = h.now()
		present = c14ClockGoroutine()
		if present == run {
			break
		}
		time.Sleep(300 * time.Microsecond) // goroutine between running=false and its exit, or just spawned
	}
	h.prevStall = h.stepStall
	h.stepStall = c14TakeStall()
	if h.stepStall > h.stall {
		h.stall = h.stepStall
	}
	h.events = append(h.events, 4, p, cur, ce, b2i(run), b2i(started), since, b2i(present), h.stall)
	h.nEvents++
	if run {
		h.exitAt = (p - since) + (ce+1)*c14Tick
	} else {
		h.exitAt = 0
	}
	h.desc = append(h.desc, fmt.Sprintf("%s@%.1fms[cur=%d end=%d run=%v go=%v]", what, float64(p)/1e6, cur, ce, run, present))
}

// do not let a step end (and its snapshot be taken) close to the moment the clock goroutine is
// expected to exit: there both answers are legitimate.  Sleep past the boundary first.
func (h *c14Hist) avoidBoundary(stepDur int64) {
	if h.exitAt == 0 {
		return
	}
	end := h.now() + stepDur
	if end > h.exitAt-c14Boundary && h.now() < h.exitAt+c14Boundary {
		time.Sleep(time.Duration(h.exitAt + c14Boundary - h.now()))
		h.sawExit++
	}
}

func (h *c14Hist) input(kind int) string {
	switch kind {
	case c14Quick:
		return h.quickIn
	case c14Medium:
		return h.medIn
	}
	return h.catIn
}

func (h *c14Hist) runMatch(m *c14Match, re *regexp2.Regexp, gate *atomic.Int32, n int32) {
	in := h.input(m.kind)
	if gate != nil {
		// spin barrier: the goroutines must enter makeDeadline as simultaneously as possible
		gate.Add(1)
		for gate.Load() < n {
		}
	}
	m.b = h.now()
	_, err := re.MatchString(in)
	m.f = h.now()
	if err != nil {
		if strings.Contains(err.Error(), "match timeout") {
			m.timedOut = true
		} else {
			m.other = err.Error()
		}
	}
}

func (h *c14Hist) group(ms []*c14Match) {
	var maxD time.Duration
	for _, m := range ms {
		m.id = h.nextID
		h.nextID++
		if m.d > maxD {
			maxD = m.d
		}
	}
	h.avoidBoundary(int64(maxD) + int64(20*time.Millisecond))
	wasStopped := h.exitAt == 0 || h.now() > h.exitAt
	if len(ms) == 1 {
		h.runMatch(ms[0], h.res[ms[0].d][0], nil, 0)
	} else {
		var gate atomic.Int32
		var wg sync.WaitGroup
		for g, m := range ms {
			wg.Add(1)
			go func(g int, m *c14Match) {
				defer wg.Done()
				h.runMatch(m, h.res[m.d][g], &gate, int32(len(ms)))
			}(g, m)
		}
		wg.Wait()
		h.sawGroup++
	}
	if wasStopped && h.nextID > len(ms) {
		h.sawRestart++
	}
	gstall := c14MaxGap.Load() // stall during this group (taken and reset by the snapshot below) or the step before
	if gstall < c14Lag/4 {
		gstall = 0
	}
	if h.stepStall > gstall {
		gstall = h.stepStall
	}
	if gstall > 0 {
		h.c.Hist("step-with-stall-over-lag/4")
	}
	type te struct {
		t    int64
		call bool
		m    *c14Match
	}
	var tes []te
	for _, m := range ms {
		tes = append(tes, te{m.b, true, m}, te{m.f, false, m})
	}
	sort.SliceStable(tes, func(i, j int) bool {
		if tes[i].t != tes[j].t {
			return tes[i].t < tes[j].t
		}
		return tes[i].call && !tes[j].call
	})
	for _, e := range tes {
		if e.call {
			h.events = append(h.events, 1, int64(e.m.id), int64(e.m.d), e.m.b)
		} else {
			h.events = append(h.events, 2, int64(e.m.id), int64(e.m.d), e.m.b, e.m.f, b2i(e.m.timedOut), gstall)
		}
		h.nEvents++
	}
	var parts []string
	for _, m := range ms {
		L := m.f - m.b
		out := "ok"
		if m.timedOut {
			out = "TIMEOUT"
			h.sawTimeout++
		}
		parts = append(parts, fmt.Sprintf("%s/%v:%s after %.2fms", c14KindName[m.kind], m.d, out, float64(L)/1e6))
		h.c.Hist(fmt.Sprintf("match-%s-d=%v-timeout=%v", c14KindName[m.kind], m.d, m.timedOut))
		// the property's own observable, with the proved bounds
		lo := int64(m.d) - (2*(c14Lag+gstall) + 2*c14Tick)
		hi := int64(m.d) + 2*regexp2.VerifClockPeriod() + 3*(c14Lag+gstall) + c14Margin
		if m.other != "" {
			h.direct = append(h.direct, fmt.Sprintf("match %d (%s, timeout %v): unexpected error %s", m.id, c14KindName[m.kind], m.d, m.other))
		}
		if m.timedOut && L < lo {
			h.direct = append(h.direct, fmt.Sprintf("false timeout: %s match with MatchTimeout %v reported a timeout after %.3fms (started at %.1fms)", c14KindName[m.kind], m.d, float64(L)/1e6, float64(m.b)/1e6))
		}
		if L > hi {
			h.direct = append(h.direct, fmt.Sprintf("timeout did not fire in time: %s match with MatchTimeout %v returned (timeout=%v) only after %.1fms", c14KindName[m.kind], m.d, m.timedOut, float64(L)/1e6))
		}
	}
	if gstall > 0 {
		parts = append(parts, fmt.Sprintf("stall %.1fms", float64(gstall)/1e6))
	}
	h.snap("{" + strings.Join(parts, ", ") + "}")
}

func (h *c14Hist) idle(d time.Duration) {
	h.avoidBoundary(int64(d))
	time.Sleep(d)
	h.snap(fmt.Sprintf("idle %v", d))
}

// idle until the clock goroutine has exited on its own (timeout + 1 s slop passed), plus a margin
func (h *c14Hist) idleLong() {
	if h.exitAt == 0 {
		h.idle(400 * time.Millisecond)
		return
	}
	wait := h.exitAt + c14Boundary + int64(h.rng.Intn(200))*int64(time.Millisecond) - h.now()
	if wait < 0 {
		wait = 0
	}
	time.Sleep(time.Duration(wait))
	h.sawExit++
	h.snap(fmt.Sprintf("idle-long %.0fms", float64(wait)/1e6))
}

// StopTimeoutClock under a watchdog: it only returns once the clock goroutine has set running = false
func c14StopWithin(d time.Duration) bool {
	done := make(chan struct{})
	go func() { regexp2.StopTimeoutClock(); close(done) }()
	select {
	case <-done:
		return true
	case <-time.After(d):
		return false
	}
}

func (h *c14Hist) stop() {
	if h.aborted {
		return
	}
	b := h.now()
	if !c14StopWithin(3 * time.Second) {
		h.direct = append(h.direct, "StopTimeoutClock did not return within 3 s: the clock goroutine does not exit after clockEnd was reset")
		h.aborted = true
		return
	}
	h.events = append(h.events, 3, b)
	h.nEvents++
	h.sawStop++
	h.snap("StopTimeoutClock")
}

var c14Timeouts = []time.Duration{5 * time.Millisecond, 20 * time.Millisecond, 80 * time.Millisecond}

func (h *c14Hist) randMatch() *c14Match {
	r := h.rng
	kind := r.Intn(3)
	d := Pick(r, c14Timeouts)
	if kind == c14Medium {
		d = Pick(r, []time.Duration{20 * time.Millisecond, 80 * time.Millisecond, 80 * time.Millisecond})
	}
	return &c14Match{d: d, kind: kind}
}

// four matches released together; at least two are medium matches with the 80 ms timeout
// (long enough to still be running at the first clock tick, short enough never to time out)
func (h *c14Hist) randGroup() []*c14Match {
	r := h.rng
	ms := []*c14Match{{d: 80 * time.Millisecond, kind: c14Medium}, {d: 80 * time.Millisecond, kind: c14Medium}}
	for len(ms) < 4 {
		ms = append(ms, h.randMatch())
	}
	for i := len(ms) - 1; i > 0; i-- {
		j := r.Intn(i + 1)
		ms[i], ms[j] = ms[j], ms[i]
	}
	return ms
}

// calibrate input lengths for `(a+)+$` on a^n b: natural running time doubles per extra 'a'
func c14Calibrate() (nMed, nCat int, tMed time.Duration) {
	re := regexp2.MustCompile(`(a+)+$`)
	re.MatchTimeout = 20 * time.Second
	n := 12
	for {
		in := strings.Repeat("a", n) + "b"
		best := time.Duration(math.MaxInt64)
		for k := 0; k < 3; k++ {
			t0 := time.Now()
			re.MatchString(in)
			if el := time.Since(t0); el < best {
				best = el
			}
		}
		if best >= 3*time.Millisecond || n >= 30 {
			return n, n + 9, best
		}
		n++
	}
}

// the timeout clock is one process-wide object: the C14 legs take turns
var c14ClockMu sync.Mutex

func legC14Clock(c *Ctx) {
	c14ClockMu.Lock()
	defer c14ClockMu.Unlock()
	c.Rule("histories on the real clock (period 1 ms) from the initial state: timed catastrophic/medium/quick matches of `(a+)+$` with timeouts {5,20,80} ms, groups of 4 concurrent timed matches, idle gaps 30..400 ms and idle until the goroutine exits by itself (timeout + 1 s slop), StopTimeoutClock; stamps + clock snapshots + goroutine presence after every step; replayed on Model.Clock.step (lag 25 ms); non-trivial = history with a timeout and a stop or natural exit followed by a restart (distinct by recorded history)")
	regexp2.SetTimeoutCheckPeriod(time.Millisecond)
	period := regexp2.VerifClockPeriod()
	nMed, nCat, tMed := c14Calibrate()
	c.Hist(fmt.Sprintf("calibration-medium-n=%d", nMed))
	mk := func() *c14Hist {
		h := &c14Hist{c: c, quickIn: "aaaa", medIn: strings.Repeat("a", nMed) + "b", catIn: strings.Repeat("a", nCat) + "b",
			res: map[time.Duration][]*regexp2.Regexp{}}
		for _, d := range c14Timeouts {
			for g := 0; g < 4; g++ {
				re := regexp2.MustCompile(`(a+)+$`)
				re.MatchTimeout = d
				h.res[d] = append(h.res[d], re)
			}
		}
		return h
	}
	hbStop := make(chan struct{})
	go c14Heartbeat(hbStop)
	defer close(hbStop)
	// the two constants the model hard-codes: the shift of durationToTicks and the slop of extendClock
	for i := 0; i < c.N(200, 2000); i++ {
		x := int64(c.Rng.Next()>>uint(2+c.Rng.Intn(60))) - int64(c.Rng.Intn(3))*int64(c.Rng.Intn(1<<30))
		c.Add(&Case{Desc: fmt.Sprintf("durationToTicks(%d)", x), ModelLeg: 1403, ModelIn: []int64{x},
			ImplOut: []int64{regexp2.VerifClockTicks(time.Duration(x)), regexp2.VerifClockTicks(time.Second)}, Class: "ticks"})
	}
	var tot c14Hist
	nh := c.N(16, 90)
	for hi := 0; hi < nh; hi++ {
		hseed := c.Rng.Next()
		var h *c14Hist
		// a timing finding must come back when the SAME history is run again: a logic error in the clock is a function
		// of the history, a scheduling stall of a loaded machine is not (the lag witness catches most stalls, not all)
		for attempt := 0; attempt < 3; attempt++ {
			h = mk()
			h.rng = NewRng(hseed)
			if attempt > 0 {
				c.Hist("history-run-again-after-a-timing-finding-or-a-stall")
			}
			if !c14StopWithin(3*time.Second) || !regexp2.VerifClockReset() {
				c.Add(&Case{Desc: fmt.Sprintf("before history %d: StopTimeoutClock", hi),
					Direct: "StopTimeoutClock did not return within 3 s: the clock goroutine does not exit (running stays true)"})
				c.Flush()
				return
			}
			h.origin = time.Now()
			h.snap("init")
			r := h.rng
			// every history: first use of the clock, a stop followed by an idle gap longer than every
			// timeout and then concurrent matches (stale clock), and — every other history — a natural exit
			h.group([]*c14Match{h.randMatch()})
			script := []string{"stop-idle-group"}
			if hi%2 == 0 {
				script = append(script, "long-group")
			} else {
				script = append(script, "stop-idle-single")
			}
			script = append(script, "stale-round", "stale-round", "stale-round")
			for k := 3 + r.Intn(3); k > 0; k-- {
				script = append(script, Pick(r, []string{"match", "match", "idle", "group", "stop", "cat80"}))
			}
			for i := len(script) - 1; i > 0; i-- {
				j := r.Intn(i + 1)
				script[i], script[j] = script[j], script[i]
			}
			for _, st := range script {
				switch st {
				case "match":
					h.group([]*c14Match{h.randMatch()})
				case "cat80":
					h.group([]*c14Match{{d: 80 * time.Millisecond, kind: c14Cat}})
				case "idle":
					h.idle(time.Duration(30+r.Intn(370)) * time.Millisecond)
				case "group":
					h.group(h.randGroup())
				case "stop":
					h.stop()
				case "stop-idle-group":
					h.stop()
					h.idle(time.Duration(250+r.Intn(150)) * time.Millisecond)
					h.sawStaleStart++
					h.group(h.randGroup())
				case "stale-round":
					// stopped clock, idle longer than every timeout, then four identical medium matches
					// with different deadlines enter makeDeadline at the same instant
					h.stop()
					h.idle(time.Duration(95+r.Intn(40)) * time.Millisecond)
					h.sawStaleStart++
					ds := []time.Duration{80 * time.Millisecond, 80 * time.Millisecond, 80 * time.Millisecond, 20 * time.Millisecond}
					var ms []*c14Match
					for _, d := range ds {
						ms = append(ms, &c14Match{d: d, kind: c14Medium})
					}
					h.group(ms)
				case "stop-idle-single":
					h.stop()
					h.idle(time.Duration(250+r.Intn(150)) * time.Millisecond)
					h.sawStaleStart++
					h.group([]*c14Match{{d: 80 * time.Millisecond, kind: c14Medium}})
				case "long-group":
					h.idleLong()
					h.sawStaleStart++
					h.group(h.randGroup())
				}
			}
			if (len(h.direct) == 0 && h.stall <= c14Lag) || h.aborted {
				break
			}
		}
		in := []int64{1, period, c14Lag, c14Margin, 400000, int64(h.nEvents)}
		in = append(in, h.events...)
		cs := &Case{Desc: fmt.Sprintf("history %d (medium input a^%d b ~%v): %s", hi, nMed, tMed, strings.Join(h.desc, " ; ")),
			ModelLeg: 1401, ModelIn: in, ImplOut: []int64{0, 0},
			Nontrivial: h.sawTimeout > 0 && (h.sawStop > 0 || h.sawExit > 0) && h.sawRestart > 0, Class: "history"}
		if len(h.direct) > 0 {
			cs.Direct = strings.Join(h.direct, " | ")
		}
		if h.stall > c14Lag {
			// three runs of this history, each with a scheduling stall longer than the lag the model allows for: the
			// recorded snapshots say more about the machine than about the clock (the direct bounds above, which
			// widen with the stall of their own step, still stand)
			cs.ModelLeg, cs.ModelIn, cs.ImplOut = 0, nil, nil
			c.Hist("history-too-stalled-for-the-model")
		}
		c.Add(cs)
		if h.aborted {
			c.Flush()
			return
		}
		tot.sawTimeout += h.sawTimeout
		tot.sawExit += h.sawExit
		tot.sawRestart += h.sawRestart
		tot.sawStop += h.sawStop
		tot.sawGroup += h.sawGroup
		tot.sawStaleStart += h.sawStaleStart
	}
	c.Gate("a timeout fired", tot.sawTimeout > 0)
	c.Gate("clock goroutine exited by itself", tot.sawExit > 0)
	c.Gate("clock restarted after stop/exit", tot.sawRestart > 0)
	c.Gate("StopTimeoutClock", tot.sawStop > 0)
	c.Gate("4 concurrent deadlines", tot.sawGroup > 0)
	c.Gate("matches started on a stale clock", tot.sawStaleStart > 0)

	// int64 wrap-around of d + clockPeriod (known finding c14-overflow): deadline arithmetic on a stopped clock
	if !c14StopWithin(3 * time.Second) {
		c.Add(&Case{Desc: "after the histories: StopTimeoutClock", Direct: "StopTimeoutClock did not return within 3 s"})
		return
	}
	cur, _, _, _, _ := regexp2.VerifClockSnapshot()
	big := time.Duration(math.MaxInt64 - 1)
	dl := regexp2.VerifClockMakeDeadline(big)
	c.Add(&Case{Desc: fmt.Sprintf("makeDeadline(MaxInt64-1) with current=%d returns %d", cur, dl), ModelLeg: 1402,
		ModelIn: []int64{period, cur, int64(big) >> 32, int64(big) & 0xffffffff}, ImplOut: []int64{dl}, Class: "deadline-arith"})
	re := regexp2.MustCompile(`(a+)+$`)
	re.MatchTimeout = big
	t0 := time.Now()
	_, err := re.MatchString(strings.Repeat("a", nMed) + "b")
	el := time.Since(t0)
	cs := &Case{Desc: fmt.Sprintf("MatchTimeout = MaxInt64-1 ns on a %v match: err=%v after %v", tMed, err, el), Class: "overflow", Guard: "c14-overflow"}
	if err != nil {
		cs.Direct = "false timeout: d + clockPeriod overflows int64 in makeDeadline, the deadline lies in the past"
	}
	c.Add(cs)
	c14StopWithin(3 * time.Second)
}
