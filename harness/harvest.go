package main

import (
	"go/ast"
	"go/parser"
	"go/token"
	"os"
	"path/filepath"
	"strconv"
	"sync"
)

// repoPath is the source tree under verification (VERIF_REPO overrides /repo for private snapshots)
func repoPath() string {
	if v := os.Getenv("VERIF_REPO"); v != "" {
		return v
	}
	return "/repo"
}

var harvestOnce sync.Once
var harvested []string

// harvestedPatterns: every string literal passed as first argument to Compile/MustCompile (or found in a
// composite literal field named pattern/Pattern/re) in /repo's *_test.go files, extracted at run time with go/ast.
func harvestedPatterns() []string {
	harvestOnce.Do(func() {
		seen := map[string]bool{}
		add := func(s string) {
			if len(s) > 0 && len(s) < 200 && !seen[s] {
				seen[s] = true
				harvested = append(harvested, s)
			}
		}
		fset := token.NewFileSet()
		files, _ := filepath.Glob(repoPath()+"/*_test.go")
		more, _ := filepath.Glob(repoPath()+"/*/*_test.go")
		files = append(files, more...)
		for _, f := range files {
			src, err := os.ReadFile(f)
			if err != nil {
				continue
			}
			af, err := parser.ParseFile(fset, f, src, 0)
			if err != nil {
				continue
			}
			ast.Inspect(af, func(n ast.Node) bool {
				if call, ok := n.(*ast.CallExpr); ok && len(call.Args) > 0 {
					name := ""
					switch fn := call.Fun.(type) {
					case *ast.Ident:
						name = fn.Name
					case *ast.SelectorExpr:
						name = fn.Sel.Name
					}
					if name == "Compile" || name == "MustCompile" {
						if lit, ok := call.Args[0].(*ast.BasicLit); ok && lit.Kind == token.STRING {
							if s, err := strconv.Unquote(lit.Value); err == nil {
								add(s)
							}
						}
					}
				}
				return true
			})
		}
	})
	return harvested
}
