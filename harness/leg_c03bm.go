package main

// C03, leg c03-bm: ties the Coq model of the Boyer-Moore prefix machine (coq/Model/BM.v:
// syntax/prefix.go newBmPrefix, Scan, IsMatch, matchPattern) to the implementation.
//   (a) tables: for every pattern the model's newBmPrefix must produce exactly the tables of the real
//       one (pattern after lower-casing, positive, negativeASCII, negativeUnicode row by row, lowASCII,
//       highASCII; nil for an astral rune; a fault for the empty pattern / a negative rune)  [model leg 310]
//   (b) Scan and IsMatch at EVERY index 0..n of every text up to length 5-7 over the pattern's own runes
//       plus foreign ones (and near-miss texts), for the window (0, n) the runner uses and for random
//       windows  [model leg 311]
// Patterns: the Boyer-Moore prefixes of the c03 shapes as the writer built them (Code.BmPrefix, both
// directions), a fixed list (periodic literals, page-0 / other-page / U+FFFF runes, astral runes,
// case-insensitive incl. runes whose lower case changes page) and random literals over small alphabets,
// each x {LTR, RTL} x {case-sensitive, case-insensitive} through the hook syntax/verif_bm.go.

import (
	"fmt"
	"sort"
	"time"
	"unicode"

	"github.com/dlclark/regexp2/v2/syntax"
)

func init() {
	registerLeg("c03-bm", "C03", legC03BM)
}

// number of (pattern, text) batches whose Scan calls did not return
var bmHung int

type bmCase struct {
	pat     []rune
	ci, rtl bool
	src     string           // where the pattern comes from
	real    *syntax.BmPrefix // the writer's own machine (nil: built through VerifNewBmPrefix)
	extra   []rune           // foreign runes for the texts
	full    bool             // enumerate all texts (no sampling)
}

var bmFixed = []struct {
	pat   string
	extra []rune
}{
	{"a", []rune{'b'}}, {"ab", []rune{'x'}}, {"aa", []rune{'b'}}, {"aaa", []rune{'b'}}, {"abab", []rune{'x'}}, {"abcab", nil}, {"aba", []rune{'c'}},
	{"aab", nil}, {"abb", nil}, {"abaab", nil}, {"aabaa", nil}, {"abcabc", nil}, {"abcbc", nil}, {"bcabc", nil}, {"abaabab", nil}, {"aabab", nil}, {"babab", []rune{'c'}},
	{"abcd", []rune{'x'}}, {"abac", nil}, {"cabab", nil}, {"ababc", nil},
	// page 0 beyond ASCII (negativeASCII becomes the 256-entry row 0), other pages, mixtures
	{"é", []rune{'a', 'ê'}}, {"éa", []rune{'ê'}}, {"aé", []rune{'ê'}}, {"éé", []rune{'a'}}, {"éaé", []rune{'ê'}}, {"aéa", []rune{'ÿ'}}, {"\u0080a", []rune{0x7f}}, {"ÿa\u0080", nil},
	{"āa", []rune{0x102}}, {"aā", []rune{0x201}}, {"āăā", []rune{'a'}}, {"aāé", []rune{'b'}}, {"āaȁ", []rune{0x101}}, {"Ωab", []rune{'ω'}},
	{"￿b", []rune{'x', 0xfffe}}, {"b￿", []rune{'y', 0xfffe}}, {"a￿￿b", nil}, {"＀￿", []rune{0xff01}}, {"￾b", []rune{0xffff}},
	// astral: newBmPrefix gives up
	{"a😀b", []rune{'x'}}, {"😀", nil}, {"ab\U00010000", nil},
	// case-insensitive material: Kelvin sign and dotted capital I lower to ASCII, DZ digraphs, Greek, Latin-1
	{"AbA", []rune{'a', 'B'}}, {"aBc", []rune{'A', 'C'}}, {"ÉA", []rune{'é', 'a'}}, {"Kb", []rune{'k', 'K'}}, {"İa", []rune{'i', 'I'}}, {"ǅa", []rune{'ǆ', 'Ǆ'}}, {"ΣΩ", []rune{'σ', 'ω', 'ς'}},
	{"ABAB", []rune{'a', 'b'}}, {"AaA", []rune{'b'}}, {"ẞa", []rune{'ß'}},
}

func bmEncInts(xs []int) []int64 {
	out := []int64{int64(len(xs))}
	for _, x := range xs {
		out = append(out, int64(x))
	}
	return out
}

func bmLowerTable(rs []rune) []int64 {
	seen := map[rune]bool{}
	var keys []rune
	for _, r := range rs {
		if !seen[r] {
			seen[r] = true
			keys = append(keys, r)
		}
	}
	sort.Slice(keys, func(i, j int) bool { return keys[i] < keys[j] })
	var out []int64
	n := 0
	for _, r := range keys {
		if l := unicode.ToLower(r); l != r {
			out = append(out, int64(r), int64(l))
			n++
		}
	}
	return append([]int64{int64(n)}, out...)
}

// the implementation's tables in the encoding of Drv03.run_bm_tables
func bmEncTables(b *syntax.BmPrefix) []int64 {
	if b == nil {
		return []int64{0, 0}
	}
	pat, _, _ := b.VerifFields()
	pos, na, nu, lo, hi := b.VerifTables()
	out := []int64{0, 1}
	out = append(out, encRunes(pat)...)
	out = append(out, bmEncInts(pos)...)
	out = append(out, bmEncInts(na)...)
	out = append(out, b2i(nu != nil))
	nrows := 0
	var rows []int64
	for i, row := range nu {
		if row != nil {
			nrows++
			rows = append(rows, int64(i))
			rows = append(rows, bmEncInts(row)...)
		}
	}
	out = append(out, int64(nrows))
	out = append(out, rows...)
	return append(out, int64(lo), int64(hi))
}

func legC03BM(c *Ctx) {
	c.Rule("patterns: Code.BmPrefix of every c03 shape that has one (both directions, as the writer built it), a fixed list (periodic literals abab/aaa/abcab/..., runes of page 0 beyond ASCII, other pages, U+FFFF, astral runes, case-insensitive literals incl. Kelvin sign / dotted I / DZ digraphs), random literals of length 1-7 over alphabets of 1-3 runes (ASCII, Latin-1, other pages, mixed case), the empty pattern and negative runes (faults); each fixed/random literal x {LTR,RTL} x {case-sensitive, case-insensitive} through VerifNewBmPrefix. (a) tables [leg 310]: model newBmPrefix = real tables (lower-cased pattern, positive, negativeASCII, negativeUnicode rows, lowASCII, highASCII, nil, fault). (b) [leg 311] every text up to length 7/6/5 over 2/3/4 runes (pattern runes, their other case under case-insensitivity, foreign runes; sampled beyond the budget, all texts up to length 3 always) plus near-miss texts up to length 16: Scan and IsMatch at EVERY index 0..n for the runner's window (0,n) and for random windows (faults included); non-trivial = Scan skipped at least one position or answered -1 (distinct by pattern, flags, text, window)")
	var cases []bmCase
	// (1) the writer's own machines
	seenReal := map[string]bool{}
	pats := shapePatterns(c.Rng)
	for _, s := range c03FinderShapes {
		for _, rtl := range []bool{false, true} {
			pats = append(pats, patCase{pat: s, o: Opts{RTL: rtl}, alpha: []rune{'a', 'b', 'c', 'x'}})
		}
	}
	nReal := 0
	for _, p := range pats {
		if p.cg {
			continue
		}
		re, err := p.compile()
		if err != nil {
			continue
		}
		bm := re.VerifCode().BmPrefix
		if bm == nil {
			continue
		}
		pat, ci, rtl := bm.VerifFields()
		key := fmt.Sprintf("%q|%v|%v", string(pat), ci, rtl)
		if seenReal[key] {
			continue
		}
		seenReal[key] = true
		nReal++
		cases = append(cases, bmCase{pat: append([]rune{}, pat...), ci: ci, rtl: rtl, src: fmt.Sprintf("Code.BmPrefix of %q opts=%s", p.pat, p.o), real: bm, extra: []rune{'x'}})
	}
	c.Gate("the writer built Boyer-Moore prefixes for the c03 shapes (both directions)", nReal >= 20)
	// (2) fixed literals
	for _, f := range bmFixed {
		for _, rtl := range []bool{false, true} {
			for _, ci := range []bool{false, true} {
				cases = append(cases, bmCase{pat: []rune(f.pat), ci: ci, rtl: rtl, src: "fixed literal", extra: f.extra, full: true})
			}
		}
	}
	// (3) random literals over small alphabets
	alphas := [][]rune{{'a'}, {'a', 'b'}, {'a', 'b'}, {'a', 'b', 'c'}, {'a', 'b', 'c'}, {'a', 'é'}, {'é', 'ê'}, {'a', 'ā', 'ă'}, {'ā', 0x201}, {0xffff, 'b'}, {0xffff, 0xff00, 'a'},
		{'a', 'A', 'b'}, {'A', 'B'}, {'É', 'é', 'a'}, {'K', 'k', 'K'}, {'Σ', 'σ', 'ς'}, {0x7f, 0x80}, {'z', 'ÿ', 0x100}}
	nrand := c.N(140, 4000)
	for i := 0; i < nrand; i++ {
		al := Pick(c.Rng, alphas)
		n := 1 + c.Rng.Intn(7)
		pat := make([]rune, n)
		for k := range pat {
			pat[k] = Pick(c.Rng, al)
		}
		if c.Rng.Chance(35) && n >= 4 {
			// force a period
			per := 1 + c.Rng.Intn(3)
			for k := per; k < n; k++ {
				pat[k] = pat[k-per]
			}
			if c.Rng.Chance(50) {
				pat[c.Rng.Intn(n)] = Pick(c.Rng, al)
			}
		}
		var extra []rune
		for _, x := range al {
			if !containsRune(pat, x) {
				extra = append(extra, x)
			}
		}
		cases = append(cases, bmCase{pat: pat, ci: c.Rng.Chance(40), rtl: c.Rng.Bool(), src: "random literal", extra: extra})
	}
	// (4) faults
	for _, rtl := range []bool{false, true} {
		cases = append(cases, bmCase{pat: nil, rtl: rtl, src: "empty pattern"}, bmCase{pat: []rune{-1}, rtl: rtl, src: "negative rune"},
			bmCase{pat: []rune{'a', -5, 'b'}, rtl: rtl, src: "negative rune"}, bmCase{pat: []rune{'a', 0x110000}, rtl: rtl, src: "rune beyond U+10FFFF"})
	}

	ev := map[string]int{}
	done := map[string]bool{}
	for _, bc := range cases {
		key := fmt.Sprintf("%q|%v|%v|%v", string(bc.pat), bc.ci, bc.rtl, bc.real != nil)
		if len(bc.pat) > 0 && bc.pat[0] < 0 {
			key = fmt.Sprintf("%v|%v|%v", bc.pat, bc.ci, bc.rtl)
		}
		if done[key] {
			continue
		}
		done[key] = true
		c03BMPattern(c, bc, ev)
	}
	for _, g := range []string{"tables:ascii-only", "tables:negativeASCII-is-row-0", "tables:row-other-page", "tables:nil-astral", "tables:fault", "tables:case-insensitive-lowered",
		"tables:rtl", "tables:periodic-positive-shift", "tables:U+FFFF",
		"scan:ascii-table-skip", "scan:unicode-row-skip", "scan:unicode-row-absent", "scan:beyond-U+FFFF-in-text", "scan:U+FFFF-in-text", "scan:case-insensitive-hit-other-case", "scan:rtl-skip", "scan:ltr-skip",
		"scan:periodic-partial-match", "scan:not-found", "scan:found-later", "scan:random-window", "scan:fault", "ismatch:true", "ismatch:false"} {
		c.Gate("boyer-moore event exercised: "+g, ev[g] > 0)
	}
	for k, v := range ev {
		c.res.Histogram["event:"+k] = v
	}
}

func c03BMPattern(c *Ctx, bc bmCase, ev map[string]int) {
	head := encRunes(bc.pat)
	head = append(head, b2i(bc.ci), b2i(bc.rtl))
	pdesc := fmt.Sprintf("%s %+q (runes %v) caseInsensitive=%v rightToLeft=%v", bc.src, string(bc.pat), bc.pat, bc.ci, bc.rtl)
	// (a) tables
	bm := bc.real
	var tblOut []int64
	func() {
		defer func() {
			if r := recover(); r != nil {
				tblOut = []int64{2}
				bm = nil
			}
		}()
		if bm == nil {
			bm = syntax.VerifNewBmPrefix(bc.pat, bc.ci, bc.rtl)
		}
		tblOut = bmEncTables(bm)
	}()
	in310 := append(append([]int64{}, head...), bmLowerTable(bc.pat)...)
	nontrivTbl := false
	if bm != nil {
		pos, na, nu, _, _ := bm.VerifTables()
		lp, _, _ := bm.VerifFields()
		for _, v := range pos {
			if v > 1 || v < -1 {
				ev["tables:periodic-positive-shift"]++
				nontrivTbl = true
				break
			}
		}
		if nu == nil {
			ev["tables:ascii-only"]++
		} else {
			if len(na) == 256 {
				ev["tables:negativeASCII-is-row-0"]++
			}
			for i, row := range nu {
				if i > 0 && row != nil {
					ev["tables:row-other-page"]++
					break
				}
			}
		}
		if bc.ci && string(lp) != string(bc.pat) {
			ev["tables:case-insensitive-lowered"]++
		}
		if bc.rtl {
			ev["tables:rtl"]++
		}
		if containsRune(lp, 0xffff) {
			ev["tables:U+FFFF"]++
		}
	} else if len(tblOut) == 1 {
		ev["tables:fault"]++
	} else {
		ev["tables:nil-astral"]++
	}
	c.Add(&Case{Desc: "newBmPrefix: " + pdesc + " [0/1/pattern/positive/negativeASCII/has-unicode/rows/lowASCII/highASCII; 0,0 = nil; 2 = fault]", ModelLeg: 310, ModelIn: in310, ImplOut: tblOut,
		Nontrivial: nontrivTbl || len(bc.pat) > 1, Key: "T|" + pdesc, Class: "bm-tables"})
	if bm == nil {
		return
	}
	lp, _, _ := bm.VerifFields()
	_, _, nu, _, _ := bm.VerifTables()
	// (b) alphabet: the pattern's runes (and their other case), then foreign runes
	var al []rune
	add := func(x rune) {
		if !containsRune(al, x) {
			al = append(al, x)
		}
	}
	for _, x := range bc.pat {
		add(x)
	}
	if bc.ci {
		for _, x := range bc.pat {
			if u := unicode.ToUpper(x); u != x {
				add(u)
			}
			if l := unicode.ToLower(x); l != x {
				add(l)
			}
		}
	}
	npat := len(al)
	for _, x := range bc.extra {
		add(x)
	}
	if len(al) == npat {
		add('x')
	}
	if len(al) > 4 {
		// keep at most four: pattern runes first, one foreign rune always
		foreign := al[len(al)-1]
		if npat < len(al) {
			foreign = al[npat]
		}
		al = append(append([]rune{}, al[:3]...), foreign)
	}
	maxLen := 7
	switch {
	case len(al) >= 4:
		maxLen = 5
	case len(al) == 3:
		maxLen = 6
	}
	budget := c.N(220, 6000)
	if bc.full {
		budget = c.N(500, 6000)
	}
	var all, texts [][]rune
	allStrings(al, maxLen, func(s []rune) { all = append(all, s) })
	for _, s := range all {
		if len(s) <= 3 || len(all) <= budget || c.Rng.Intn(len(all)) < budget {
			texts = append(texts, s)
		}
	}
	// near misses: the pattern with one rune changed / dropped / doubled, behind partial occurrences, with
	// runes of an absent row, beyond U+FFFF, and U+FFFF itself
	wide := append(append([]rune{}, al...), 0x3b1, 0x10400, 0xffff, 'q')
	for k := 0; k < c.N(8, 40); k++ {
		miss := append([]rune{}, bc.pat...)
		switch c.Rng.Intn(4) {
		case 0:
			miss[c.Rng.Intn(len(miss))] = Pick(c.Rng, wide)
		case 1:
			i := c.Rng.Intn(len(miss))
			miss = append(miss[:i], miss[i+1:]...)
		case 2:
			i := c.Rng.Intn(len(miss))
			miss = append(miss[:i+1], miss[i:]...)
		}
		t := randString(c.Rng, wide, 3)
		t = append(t, miss...)
		if c.Rng.Bool() {
			t = append(t, bc.pat[:c.Rng.Intn(len(bc.pat)+1)]...)
		}
		if c.Rng.Chance(70) {
			t = append(t, bc.pat...)
		}
		t = append(t, randString(c.Rng, wide, 2)...)
		if len(t) > 16 {
			t = t[:16]
		}
		if bc.ci && c.Rng.Bool() {
			for i := range t {
				if c.Rng.Bool() {
					t[i] = unicode.ToUpper(t[i])
				}
			}
		}
		texts = append(texts, t)
	}
	periodic := false
	pos, _, _, _, _ := bm.VerifTables()
	for _, v := range pos {
		if v > 1 || v < -1 {
			periodic = true
		}
	}
	m := len(lp)
	for _, in := range texts {
		n := len(in)
		wins := [][2]int{{0, n}}
		if n > 0 && c.Rng.Chance(12) {
			b := c.Rng.Intn(n + 1)
			e := b + c.Rng.Intn(n+1-b)
			wins = append(wins, [2]int{b, e})
			ev["scan:random-window"]++
		} else if c.Rng.Chance(3) {
			// a window that sticks out of the text: index faults on both sides
			wins = append(wins, [2]int{-2, n + 2})
		}
		enc := append([]int64{}, head...)
		enc = append(enc, bmLowerTable(append(append([]rune{}, bc.pat...), in...))...)
		enc = append(enc, encRunes(in)...)
		enc = append(enc, int64(len(wins)))
		for _, w := range wins {
			enc = append(enc, int64(w[0]), int64(w[1]))
		}
		var out []int64
		nontrivial := false
		if bmHung >= 3 {
			// three Scan calls already failed to return: the machine loops, stop feeding it
			return
		}
		type bmAns struct {
			out        []int64
			nontrivial bool
			ev         map[string]int
		}
		ch := make(chan bmAns, 1)
		go func(in []rune, wins [][2]int) {
			ev := map[string]int{}
			var out []int64
			nontrivial := false
			for wi, w := range wins {
				for q := 0; q <= n; q++ {
					func() {
						defer func() {
							if r := recover(); r != nil {
								out = append(out, 2, 0)
								ev["scan:fault"]++
							}
						}()
						r := bm.Scan(in, q, w[0], w[1])
						out = append(out, 0, int64(r))
						if wi != 0 {
							return
						}
						if r == -1 {
							ev["scan:not-found"]++
							nontrivial = true
						} else if r != q {
							ev["scan:found-later"]++
							nontrivial = true
							if bc.rtl {
								ev["scan:rtl-skip"]++
							} else {
								ev["scan:ltr-skip"]++
							}
							if nu == nil {
								ev["scan:ascii-table-skip"]++
							}
						}
						if r != -1 && bc.ci {
							start := r
							if bc.rtl {
								start = r - m
							}
							if start >= 0 && start+m <= n && string(in[start:start+m]) != string(lp) {
								ev["scan:case-insensitive-hit-other-case"]++
							}
						}
					}()
					func() {
						defer func() {
							if r := recover(); r != nil {
								out = append(out, 2, 0)
								ev["scan:fault"]++
							}
						}()
						ok := bm.IsMatch(in, q, w[0], w[1])
						out = append(out, 0, b2i(ok))
						if ok {
							ev["ismatch:true"]++
						} else {
							ev["ismatch:false"]++
						}
					}()
				}
			}
			ch <- bmAns{out, nontrivial, ev}
		}(in, wins)
		timer := time.NewTimer(5 * time.Second)
		select {
		case a := <-ch:
			timer.Stop()
			out, nontrivial = a.out, a.nontrivial
			for k, v := range a.ev {
				ev[k] += v
			}
		case <-timer.C:
			bmHung++
			c.Add(&Case{Desc: fmt.Sprintf("%s text %+q (runes %v) windows %v: Scan / IsMatch did not return within 5 s (an advance of 0 or against the scan direction loops forever)", pdesc, string(in), in, wins),
				Direct: "BmPrefix.Scan does not terminate", Key: "H|" + pdesc, Class: "bm-scan"})
			continue
		}
		// which lookup paths the text can drive (computed from the tables, the text and the fold)
		for _, x := range in {
			if bc.ci {
				x = unicode.ToLower(x)
			}
			switch {
			case x < 128:
			case x > 0xffff:
				ev["scan:beyond-U+FFFF-in-text"]++
			case nu != nil && nu[x>>8] != nil:
				ev["scan:unicode-row-skip"]++
				if x == 0xffff {
					ev["scan:U+FFFF-in-text"]++
				}
			case nu != nil:
				ev["scan:unicode-row-absent"]++
			}
		}
		if periodic && n >= m && nontrivial {
			ev["scan:periodic-partial-match"]++
		}
		desc := fmt.Sprintf("%s text %+q (runes %v) windows %v", pdesc, string(in), in, wins)
		c.Add(&Case{Desc: desc + " [per window, per index 0..n: Scan as 0/result or 2/0 (fault), IsMatch as 0/bool]", ModelLeg: 311, ModelIn: enc, ImplOut: out,
			Nontrivial: nontrivial, Key: desc, Class: "bm-scan"})
	}
}
