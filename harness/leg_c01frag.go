package main

import (
	"crypto/sha256"
	"fmt"
	"unicode"

	"github.com/dlclark/regexp2/v2/syntax"
)

// Leg c01-frag: instance coverage of the compile_correct theorems.  No implementation behaviour is compared
// here: the model (Drv01 legs 104/105) evaluates, on every real exported tree of the c01-writer corpus, the
// DECIDABLE hypotheses of the theorems (Proofs/CompileFrag.v, sound by in_thm*_sound) and, on a sample of
// (program, input) pairs, the path monitor of Proofs/CompileLimit.v (mon_steps, sound by mon_sound).  The
// evidence histogram reports which fraction of real programs lies inside each theorem.  The only failure this
// leg can raise is a coverage gate: a theorem that covers no real program at all.
func init() {
	registerLeg("c01-frag", "C01", legFrag)
}

func legStreamMix(name string) uint64 {
	h := sha256.Sum256([]byte(name))
	var mix uint64
	for i := 0; i < 8; i++ {
		mix = mix<<8 | uint64(h[i])
	}
	return mix
}

type fragPat struct {
	p     string
	o     Opts
	alpha []rune
}

// the c01-writer corpus, regenerated from that leg's own random stream (same seed, same draws)
func writerCorpus(c *Ctx) []fragPat {
	r := NewRng(c.Seed ^ legStreamMix("c01-writer"))
	n := c.N(3000, 60000)
	var pats []fragPat
	for i := 0; i < n; i++ {
		o := randOpts(r, r.Chance(20))
		if r.Chance(10) {
			o.ECMA, o.RE2 = true, false
		}
		ast := GenAst(r, fullCfg(r, o, 2+r.Intn(4)))
		pats = append(pats, fragPat{ast.Pattern(o, r), o, ast.alphabet(o)})
	}
	for _, p := range []string{`(?<a>x)(?<-a>y)`, `(?<a-b>x)`, `(?<b>q)(?<a-b>x)+`, `(?<5>a)(b)(?<3>c)\5\3`, `(a)(?<n>b)(?<5>c)\k<n>`, `(?<1>a)(?<7>b)(?(7)c|d)`, `(a)|b\1`, `(?n)(a)(?<x>b)`,
		`(?:a{2,5}?b)*`, `(?=a)*b`, `(?>a|ab)c`, `(?<=ab)c`, `(?<!a{2})b`, `\bfoo\b|\Bbar`, `^$`, `a{3}`, `[a-c]{2,}?d`, `.*?x`, `(?i)abc[d-f]`, `(?s).`, `(?m)^a$`} {
		pats = append(pats, fragPat{p, Opts{}, nil})
	}
	for _, p := range harvestedPatterns() {
		pats = append(pats, fragPat{p, Opts{}, nil})
	}
	return pats
}

func patAlphabet(p string) []rune {
	seen := map[rune]bool{}
	var out []rune
	for _, r := range p {
		if (unicode.IsLetter(r) || unicode.IsDigit(r)) && !seen[r] && len(out) < 4 {
			seen[r] = true
			out = append(out, r)
		}
	}
	return append(out, 'a', ' ', '\n')
}

var fragFlagNames = []string{"root-shape", "supported", "supported2", "dense-slot-map", "slot-map-injective", "group0-in-slot0",
	"groups-are-map-keys", "groups-are-slots", "read-groups-have-slots", "has-quick-program", "has-balancing", "groups-are-slots(dense)"}

func legFrag(c *Ctx) {
	c.Rule("every pattern of the c01-writer corpus (same random stream: full generator syntax + sparse/named numbering + harvested test patterns), parsed and written by regexp2; the exported post-rewrite tree with the writer's real slot map is given to the model, which evaluates the decidable hypotheses of C01_compile_correct_exec_partial (thm1: supported, dense), C01_compile_correct2_exec_partial (thm2: + balancing), C01_compile_correct_capmap_exec_partial (thm3: any slot map), C01_compile_correct_write_quick_exec_partial (thm4: the quick program), the static frame-shape verifier tyck_auto of Proofs/CompileCfSafe.v on the full and the quick program (hypothesis of C13_limit_dichotomy_typed / C01_exec_total_typed), the side condition term_ok of the termination theorems (Proofs/SpecTermProofs.v: every loop body one-directional; hypothesis of C01_exec_total_terminating), and on a sample of (program, input, start 0) the path monitor (hypothesis path_ok of C01_exec_total_partial / C13_dichotomy_for_supported_partial); non-trivial = program longer than 8 words (distinct by pattern,options)")
	pats := writerCorpus(c)
	type item struct {
		desc string
		key  string
		long bool
	}
	var legs []int
	var ins [][]int64
	var items []item
	var tyLegs []int
	var monLegs []int
	var monIns [][]int64
	var monDesc []string
	monBudget := c.N(500, 4000)
	for _, pp := range pats {
		tree, err := syntax.Parse(pp.p, syntax.ParseOptions{RegexOptions: syntax.RegexOptions(pp.o.bits())})
		if err != nil {
			c.Hist("parse-error")
			continue
		}
		code, err := syntax.Write(tree)
		if err != nil {
			c.Hist("write-error")
			continue
		}
		tw := ExportTree(tree, code)
		in := encWriteCase(tree, tw)
		legs = append(legs, 104)
		ins = append(ins, in)
		tyLegs = append(tyLegs, 106)
		items = append(items, item{fmt.Sprintf("frag: pattern %q opts=%s (%d code words)", pp.p, pp.o, len(code.Codes)), pp.p + "|" + pp.o.String(), len(code.Codes) > 8})
		if len(monIns) < monBudget && len(code.Codes) < 400 {
			alpha := pp.alpha
			if len(alpha) == 0 {
				alpha = patAlphabet(pp.p)
			}
			alpha = append(alpha, '\n')
			for k := 0; k < 2; k++ {
				text := randString(c.Rng, alpha, 8)
				start := 0
				if pp.o.RTL {
					start = len(text)
				}
				// env (text, textstart, options, oracle rows, slots) ++ tree ++ slot map ++ start ++ step budget
				min := append(encEnv(text, start, pp.o, tw.Sets, tw.Slots), in...)
				min = append(min, int64(start), 20000)
				monLegs = append(monLegs, 105)
				monIns = append(monIns, min)
				monDesc = append(monDesc, fmt.Sprintf("monitor: pattern %q opts=%s input %+q start=%d", pp.p, pp.o, string(text), start))
			}
		}
	}
	outs, err := runModel(c.ModelBin, legs, ins)
	if err != nil {
		c.violate(Violation{Leg: c.Leg, Kind: "obligation", Desc: "model execution failed", Detail: err.Error(), NoInput: true}, "")
		return
	}
	nf := len(fragFlagNames)
	tot, in1, in2, in3, in4, quick := 0, 0, 0, 0, 0, 0
	for i, o := range outs {
		c.res.ModelEvals++
		if len(o) != 1+nf+4 || int(o[0]) != nf {
			c.violate(Violation{Leg: c.Leg, Kind: "obligation", Desc: items[i].desc, Detail: fmt.Sprintf("unexpected model output %v", fmtInts(o)), NoInput: true}, "")
			continue
		}
		fl := o[1 : 1+nf]
		th := o[1+nf:]
		tot++
		class := "outside every theorem: "
		switch {
		case th[0] == 1:
			class = "inside thm1 (supported, dense slot map)"
		case th[1] == 1:
			class = "inside thm2 (balancing captures, dense slot map)"
		case th[2] == 1:
			class = "inside thm3 (sparse slot map)"
		default:
			// first hypothesis of thm3 that fails
			for _, k := range []int{0, 2, 4, 5, 6, 7} {
				if fl[k] == 0 {
					class += "not " + fragFlagNames[k]
					break
				}
			}
		}
		if th[0] == 1 {
			in1++
		}
		if th[1] == 1 {
			in2++
		}
		if th[2] == 1 {
			in3++
		}
		if fl[9] == 1 {
			quick++
			if th[3] == 1 {
				in4++
				c.Hist("quick program inside thm4")
			} else {
				c.Hist("quick program outside thm4")
			}
		}
		if fl[10] == 1 {
			c.Hist("programs with balancing captures")
		}
		c.Add(&Case{Desc: items[i].desc, Nontrivial: items[i].long, Key: items[i].key, Class: class})
	}
	pct := func(a, b int) string {
		if b == 0 {
			return "n/a"
		}
		return fmt.Sprintf("%.1f%%", 100*float64(a)/float64(b))
	}
	c.res.Histogram["programs"] = tot
	c.res.Histogram[fmt.Sprintf("fraction inside thm1 = %s", pct(in1, tot))] = in1
	c.res.Histogram[fmt.Sprintf("fraction inside thm2 = %s", pct(in2, tot))] = in2
	c.res.Histogram[fmt.Sprintf("fraction inside thm3 = %s", pct(in3, tot))] = in3
	c.res.Histogram[fmt.Sprintf("fraction of quick programs inside thm4 = %s", pct(in4, quick))] = in4
	c.Gate("some real program satisfies the hypotheses of C01_compile_correct_exec_partial", in1 > 0)
	c.Gate("some real program satisfies the hypotheses of C01_compile_correct_capmap_exec_partial", in3 > 0)
	c.Gate("some real quick program satisfies the hypotheses of C01_compile_correct_write_quick_exec_partial", in4 > 0)

	// the static frame-shape verifier (Proofs/CompileCfSafe.v: tyck_auto), on the full and on the quick program
	touts, err := runModel(c.ModelBin, tyLegs, ins)
	if err != nil {
		c.violate(Violation{Leg: c.Leg, Kind: "obligation", Desc: "model execution failed (verifier)", Detail: err.Error(), NoInput: true}, "")
		return
	}
	tyOK, tyAll, tyqOK, tyqAll := 0, 0, 0, 0
	for i, o := range touts {
		c.res.ModelEvals++
		if len(o) != 3 {
			continue
		}
		tyAll++
		if o[0] == 1 {
			tyOK++
		} else {
			c.Add(&Case{Desc: items[i].desc + " -> full program REJECTED by the static verifier", Class: "verifier: full program rejected"})
		}
		if o[1] == 1 {
			tyqAll++
			if o[2] == 1 {
				tyqOK++
			} else {
				c.Add(&Case{Desc: items[i].desc + " -> quick program REJECTED by the static verifier", Class: "verifier: quick program rejected"})
			}
		}
	}
	c.res.Histogram[fmt.Sprintf("fraction of full programs accepted by the static verifier (tyck_auto) = %s", pct(tyOK, tyAll))] = tyOK
	c.res.Histogram[fmt.Sprintf("fraction of quick programs accepted by the static verifier (tyck_auto) = %s", pct(tyqOK, tyqAll))] = tyqOK
	c.Gate("the static verifier accepts some real program", tyOK > 0)

	// the side condition of the termination theorems (Proofs/SpecTermProofs.v: term_ok), on every exported tree
	termLegs := make([]int, len(ins))
	for i := range termLegs {
		termLegs[i] = 107
	}
	kouts, err := runModel(c.ModelBin, termLegs, ins)
	if err != nil {
		c.violate(Violation{Leg: c.Leg, Kind: "obligation", Desc: "model execution failed (term_ok)", Detail: err.Error(), NoInput: true}, "")
		return
	}
	tmOK, tmAll, tmLook, tmLookOK := 0, 0, 0, 0
	var tmMax int64
	for i, o := range kouts {
		c.res.ModelEvals++
		if len(o) != 3 {
			c.violate(Violation{Leg: c.Leg, Kind: "obligation", Desc: items[i].desc, Detail: fmt.Sprintf("unexpected model output %v (term_ok)", fmtInts(o)), NoInput: true}, "")
			continue
		}
		tmAll++
		if o[1] == 0 {
			tmLook++
		}
		if o[0] == 1 {
			tmOK++
			if o[1] == 0 {
				tmLookOK++
			}
			if o[2] > tmMax {
				tmMax = o[2]
			}
		} else {
			c.Add(&Case{Desc: items[i].desc + " -> term_ok FALSE (a loop body with consuming nodes in both directions)", Class: "termination side condition: term_ok false"})
		}
	}
	c.res.Histogram[fmt.Sprintf("fraction of exported trees with one-directional loop bodies (term_ok, hypothesis of C01_exec_total_terminating) = %s", pct(tmOK, tmAll))] = tmOK
	c.res.Histogram[fmt.Sprintf("fraction of trees WITH lookarounds / expression conditionals that are term_ok = %s", pct(tmLookOK, tmLook))] = tmLookOK
	c.res.Histogram["largest reference fuel bound (term_fuel) over term_ok trees, text length not counted"] = int(tmMax)
	c.Gate("some real tree satisfies term_ok", tmOK > 0)
	c.Gate("some real tree with a lookaround satisfies term_ok", tmLookOK > 0)

	// the path monitor
	mouts, err := runModel(c.ModelBin, monLegs, monIns)
	if err != nil {
		c.violate(Violation{Leg: c.Leg, Kind: "obligation", Desc: "model execution failed (monitor)", Detail: err.Error(), NoInput: true}, "")
		return
	}
	ok, bad := 0, 0
	for i, o := range mouts {
		c.res.ModelEvals++
		if len(o) == 2 && o[0] == 1 {
			ok++
			c.Add(&Case{Desc: fmt.Sprintf("%s -> path_ok, %d steps", monDesc[i], o[1]), Class: "monitor: path_ok holds"})
		} else {
			bad++
			c.Add(&Case{Desc: monDesc[i] + " -> not established", Class: "monitor: path_ok not established (violated, or more than 20000 steps)"})
		}
	}
	c.res.Histogram[fmt.Sprintf("fraction of monitored runs with path_ok = %s", pct(ok, ok+bad))] = ok
	c.Gate("path_ok holds on some real run", ok > 0)
}
