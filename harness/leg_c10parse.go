package main

// leg c10-parse: the pattern-parser model (coq/Model/Parser.v, model leg 1001) against syntax.Parse with the
// five optional rewrite families switched off (verif gates, mask 31): model PR_Err <=> real parse error with the
// same error code, model PR_Tree => exactly the real tree (every node: T, Options, Ch, M, N, Str, the CharSet
// structurally, children) and the same capture table; PR_Outside ("not in the modelled fragment") is counted.

import (
	"errors"
	"fmt"
	"os"
	"sort"
	"strings"
	"time"
	"unicode"

	"github.com/dlclark/regexp2/v2/syntax"
)

func init() {
	registerLeg("c10-parse", "C10", legC10Parse)
}

var c10ErrCodes = map[syntax.ErrorCode]int64{
	syntax.ErrIllegalEndEscape:           1,
	syntax.ErrUnrecognizedEscape:         2,
	syntax.ErrMissingControl:             3,
	syntax.ErrUnrecognizedControl:        4,
	syntax.ErrTooFewHex:                  5,
	syntax.ErrInvalidHex:                 6,
	syntax.ErrMissingBrace:               7,
	syntax.ErrMalformedNameRef:           8,
	syntax.ErrUndefinedBackRef:           9,
	syntax.ErrUndefinedNameRef:           10,
	syntax.ErrCaptureGroupOutOfRange:     11,
	syntax.ErrUnterminatedComment:        30,
	syntax.ErrInvalidCharRange:           31,
	syntax.ErrInvalidRepeatSize:          32,
	syntax.ErrUnexpectedParen:            33,
	syntax.ErrMissingParen:               34,
	syntax.ErrInvalidRepeatOp:            35,
	syntax.ErrMissingRepeatArgument:      36,
	syntax.ErrConditionalExpression:      37,
	syntax.ErrTooManyAlternates:          38,
	syntax.ErrUnrecognizedGrouping:       39,
	syntax.ErrInvalidGroupName:           40,
	syntax.ErrInvalidECMAGroupName:       41,
	syntax.ErrDuplicateGroupName:         42,
	syntax.ErrCapNumNotZero:              43,
	syntax.ErrAlternationCantCapture:     44,
	syntax.ErrAlternationCantHaveComment: 45,
	syntax.ErrMalformedReference:         46,
	syntax.ErrUndefinedReference:         47,
	syntax.ErrMalformedSlashP:            48,
	syntax.ErrIncompleteSlashP:           49,
	syntax.ErrUnknownSlashP:              50,
	syntax.ErrBadClassInCharRange:        51,
	syntax.ErrShorthandClassInCharRange:  52,
	syntax.ErrUnterminatedBracket:        53,
	syntax.ErrSubtractionMustBeLast:      54,
	syntax.ErrReversedCharRange:          55,
	syntax.ErrInternalError:              56,
}

var c10ErrNames = map[int64]string{1: "IllegalEndEscape", 2: "UnrecognizedEscape", 3: "MissingControl", 4: "UnrecognizedControl", 5: "TooFewHex",
	6: "InvalidHex", 7: "MissingBrace", 8: "MalformedNameRef", 9: "UndefinedBackRef", 10: "UndefinedNameRef", 11: "CaptureGroupOutOfRange",
	30: "UnterminatedComment", 31: "InvalidCharRange", 32: "InvalidRepeatSize", 33: "UnexpectedParen", 34: "MissingParen", 35: "InvalidRepeatOp",
	36: "MissingRepeatArgument", 37: "ConditionalExpression", 38: "TooManyAlternates", 39: "UnrecognizedGrouping", 40: "InvalidGroupName",
	41: "InvalidECMAGroupName", 42: "DuplicateGroupName", 43: "CapNumNotZero", 44: "AlternationCantCapture", 45: "AlternationCantHaveComment",
	46: "MalformedReference", 47: "UndefinedReference", 48: "MalformedSlashP", 49: "IncompleteSlashP", 50: "UnknownSlashP", 51: "BadClassInCharRange",
	52: "ShorthandClassInCharRange", 53: "UnterminatedBracket", 54: "SubtractionMustBeLast", 55: "ReversedCharRange", 56: "InternalError"}

// error kinds the model can produce on its own fragment (41, 42 need ECMAScript group names; 56 and 37 are unreachable:
// popGroup tests p.unit == nil right after addGroup has set it)
var c10ErrGated = []int64{1, 2, 3, 4, 5, 6, 7, 8, 9, 10, 11, 30, 31, 32, 33, 34, 35, 36, 38, 39, 40, 43, 44, 45, 46, 47, 48, 49, 50, 51, 52, 53, 54, 55}

var c10NodeNames = map[int]string{3: "Oneloop", 4: "Notoneloop", 5: "Setloop", 6: "Onelazy", 7: "Notonelazy", 8: "Setlazy", 9: "One", 10: "Notone", 11: "Set",
	12: "Multi", 13: "Ref", 14: "Bol", 15: "Eol", 16: "Boundary", 17: "Nonboundary", 18: "Beginning", 19: "Start", 20: "EndZ", 21: "End", 22: "Nothing", 23: "Empty",
	24: "Alternate", 25: "Concatenate", 26: "Loop", 27: "Lazyloop", 28: "Capture", 30: "PosLook", 31: "NegLook", 32: "Atomic", 33: "BackRefCond", 34: "ExprCond",
	41: "ECMABoundary", 42: "NonECMABoundary", 43: "Oneloopatomic", 44: "Notoneloopatomic", 45: "Setloopatomic"}

func c10ErrCode(err error) int64 {
	var se *syntax.Error
	if errors.As(err, &se) {
		if c, ok := c10ErrCodes[se.Code]; ok {
			return c
		}
	}
	return 99
}

// ---- the real parser, rewrites gated off, under recover and a watchdog ----

type c10Real struct {
	tree  *syntax.RegexTree
	err   error
	panic string
	hang  bool
}

func c10ParseReal(pat string, o syntax.RegexOptions, mco bool) c10Real {
	gateMu.Lock()
	defer gateMu.Unlock()
	syntax.VerifGates = 31
	defer func() { syntax.VerifGates = 0 }()
	done := make(chan c10Real, 1)
	go func() {
		var r c10Real
		defer func() {
			if x := recover(); x != nil {
				r.panic = fmt.Sprint(x)
			}
			done <- r
		}()
		r.tree, r.err = syntax.Parse(pat, syntax.ParseOptions{RegexOptions: o, MaintainCaptureOrder: mco})
	}()
	select {
	case r := <-done:
		return r
	case <-time.After(10 * time.Second):
		return c10Real{hang: true}
	}
}

// ---- export of the real tree in the encoding of Extract/Drv10.v (e_rnode) ----

func c10EncCls(cs *syntax.CharSet, used map[string]bool) []int64 {
	ranges, cats, sub, negate, anything, _, _ := syntax.VerifCharSetFields(cs)
	fl := b2i(negate) + 2*b2i(anything)
	if sub != nil {
		fl += 4
	}
	out := []int64{fl, int64(len(ranges))}
	for _, r := range ranges {
		out = append(out, int64(r.First), int64(r.Last))
	}
	out = append(out, int64(len(cats)))
	for _, c := range cats {
		used[c.Cat] = true
		out = append(out, b2i(c.Negate), c16CatID(c.Cat))
	}
	if sub != nil {
		out = append(out, c10EncCls(sub, used)...)
	}
	return out
}

func c10EncNode(n *syntax.RegexNode, used map[string]bool, types map[int]bool) []int64 {
	types[int(n.T)] = true
	out := []int64{int64(n.T), int64(n.Options), int64(n.Ch), int64(n.M), int64(n.N)}
	out = append(out, encRunes(n.Str)...)
	if n.Set != nil {
		out = append(out, 1)
		out = append(out, c10EncCls(n.Set, used)...)
	} else {
		out = append(out, 0)
	}
	out = append(out, int64(len(n.Children)))
	for _, k := range n.Children {
		out = append(out, c10EncNode(k, used, types)...)
	}
	return out
}

func c10EncTree(t *syntax.RegexTree, types map[int]bool) []int64 {
	out := append([]int64{0, 0}, c10EncNode(t.Root, map[string]bool{}, types)...)
	var caps []int
	for k := range t.Caps {
		caps = append(caps, k)
	}
	sort.Ints(caps)
	out = append(out, int64(len(caps)))
	for _, k := range caps {
		out = append(out, int64(k))
	}
	// the two per-tree checks of the driver (group numbers inside the capture table, direction changes only at
	// lookarounds) must hold
	return append(out, int64(t.Captop), 1, 1)
}

// ---- oracles ----

var c10NameCache = map[string]int64{}

// canonicalUnicodeCatName(name) as the model's category id: read off the Set node of \p{name}; -1 = unknown;
// -2 = one of the spellings that share a table with Ll/Lu/Lt (the C16 model identifies categories by table)
func c10CatName(name string) int64 {
	if v, ok := c10NameCache[name]; ok {
		return v
	}
	v := int64(-1)
	func() {
		defer func() { recover() }()
		t, err := syntax.Parse(`\p{`+name+`}`, syntax.ParseOptions{})
		if err != nil || len(t.Root.Children) != 1 || t.Root.Children[0].Set == nil {
			return
		}
		_, cats, _, _, _, _, _ := syntax.VerifCharSetFields(t.Root.Children[0].Set)
		if len(cats) != 1 {
			return
		}
		id := c16CatID(cats[0].Cat)
		if id >= 2 && id <= 4 && cats[0].Cat != "Ll" && cats[0].Cat != "Lu" && cats[0].Cat != "Lt" {
			v = -2
			return
		}
		v = id
	}()
	c10NameCache[name] = v
	return v
}

func c10IsNameRune(r rune) bool { return syntax.IsWordChar(r) || r == '-' || r == '=' }

// every spelling parseProperty can read in this pattern: the run of name characters after each '{', every single rune
func c10NameTable(p []rune) []int64 {
	seen := map[string]bool{}
	var out []int64
	n := 0
	add := func(rs []rune) {
		k := string(rs)
		if seen[k] {
			return
		}
		seen[k] = true
		// a name is asked as the rune list; names holding runes that do not survive string conversion cannot be valid
		id := int64(-1)
		if string([]rune(k)) == k && len([]rune(k)) == len(rs) {
			ok := true
			for i, r := range []rune(k) {
				if r != rs[i] {
					ok = false
				}
			}
			if ok {
				if len(rs) == 1 && !c10IsNameRune(rs[0]) {
					id = -1
				} else {
					id = c10CatName(k)
				}
			}
		}
		out = append(out, encRunes(rs)...)
		out = append(out, id)
		n++
	}
	for i, r := range p {
		if i > 0 && (p[i-1] == 'p' || p[i-1] == 'P') {
			add([]rune{r})
		}
		if r == '{' {
			j := i + 1
			for j < len(p) && c10IsNameRune(p[j]) {
				j++
			}
			add(p[i+1 : j])
		}
	}
	return append([]int64{int64(n)}, out...)
}

var c10BaseCats = []string{syntax.SpaceCategoryText, syntax.WordCategoryText, "Nd", "Ll", "Lu", "Lt"}

// the runes the model can ask about: c19OracleDomain (pattern runes, escape values, lower-case images), their
// neighbours (canonicalize asks about the hole between two ranges), closed under SimpleFold
func c10Domain(p []rune) []rune {
	base := c19OracleDomain(p)
	seen := map[rune]bool{}
	var out []rune
	add := func(r rune) {
		if r < 0 || r > unicode.MaxRune || seen[r] {
			return
		}
		seen[r] = true
		out = append(out, r)
	}
	for _, r := range base {
		add(r - 1)
		add(r)
		add(r + 1)
	}
	return c10Close(out, seen)
}

func c10Close(out []rune, seen map[rune]bool) []rune {
	add := func(r rune) {
		if r < 0 || r > unicode.MaxRune || seen[r] {
			return
		}
		seen[r] = true
		out = append(out, r)
	}
	for i := 0; i < len(out) && len(out) < 6000; i++ {
		add(unicode.SimpleFold(out[i]))
		add(unicode.ToLower(out[i]))
	}
	return out
}

// the members of the ECMAScript / RE2 shorthand classes \w \d \s (folded one by one under IgnoreCase)
func c10ShorthandFill(dom []rune) []rune {
	seen := map[rune]bool{}
	for _, r := range dom {
		seen[r] = true
	}
	out := dom
	for _, p := range append([][2]rune{{'0', '9'}, {'A', 'Z'}, {'_', '_'}, {'a', 'z'}}, c16EcmaSpace...) {
		for r := p[0]; r <= p[1]; r++ {
			if !seen[r] {
				seen[r] = true
				out = append(out, r)
			}
		}
	}
	return c10Close(out, seen)
}

// the rune rows for ranges of an IgnoreCase class: every rune between two pattern runes that are at most 300 apart
func c10RangeFill(p []rune, dom []rune) []rune {
	seen := map[rune]bool{}
	for _, r := range dom {
		seen[r] = true
	}
	out := dom
	add := func(r rune) {
		if r < 0 || r > unicode.MaxRune || seen[r] {
			return
		}
		seen[r] = true
		out = append(out, r)
	}
	vals := c19OracleDomain(p)
	for _, a := range vals {
		for _, b := range vals {
			if a < b && b-a <= 300 {
				for r := a; r <= b; r++ {
					add(r)
				}
			}
		}
	}
	for i := 0; i < len(out) && len(out) < 6000; i++ {
		add(unicode.SimpleFold(out[i]))
		add(unicode.ToLower(out[i]))
	}
	return out
}

func c10MayIgnoreCase(p []rune, o syntax.RegexOptions) bool {
	if o&syntax.IgnoreCase != 0 {
		return true
	}
	for i := 0; i+1 < len(p); i++ {
		if p[i] == '(' && p[i+1] == '?' {
			return true
		}
	}
	return false
}

func c10ModelIn(pr []rune, o syntax.RegexOptions, mco bool, full bool) []int64 {
	dom := c10Domain(pr)
	if full || (c10MayIgnoreCase(pr, o) && strings.ContainsRune(string(pr), '[')) {
		dom = c10RangeFill(pr, dom)
	}
	if c10MayIgnoreCase(pr, o) && o&(syntax.ECMAScript|syntax.RE2) != 0 && strings.ContainsRune(string(pr), '\\') {
		dom = c10ShorthandFill(dom)
	}
	in := []int64{int64(o), b2i(mco), int64(len(dom))}
	for _, r := range dom {
		in = append(in, int64(r), b2i(syntax.IsWordChar(r)), int64(unicode.ToLower(r)), int64(unicode.SimpleFold(r)), b2i(c19Participates(r)))
	}
	// categories: the fixed ones and every canonical name a \p of this pattern can denote
	cats := append([]string{}, c10BaseCats...)
	names := c10NameTable(pr)
	// (ids of the named categories are resolved by walking the name table again)
	haveCat := map[string]bool{}
	for _, c := range cats {
		haveCat[c] = true
	}
	for i, r := range pr {
		var cand []rune
		if i > 0 && (pr[i-1] == 'p' || pr[i-1] == 'P') {
			cand = []rune{r}
		}
		for _, c := range [][]rune{cand, c10BraceName(pr, i)} {
			if c == nil {
				continue
			}
			if id := c10CatName(string(c)); id >= 0 {
				if nm := c10CanonName(string(c)); nm != "" && !haveCat[nm] && len(cats) < 40 {
					haveCat[nm] = true
					cats = append(cats, nm)
				}
			}
		}
	}
	in = append(in, int64(len(cats)))
	for _, n := range cats {
		in = append(in, c16CatID(n))
	}
	in = append(in, int64(len(dom)))
	for _, r := range dom {
		var mask int64
		for j, n := range cats {
			if c16CatIn(n, r) {
				mask |= 1 << uint(j)
			}
		}
		in = append(in, int64(r), mask)
	}
	in = append(in, names...)
	return append(in, encRunes(pr)...)
}

func c10BraceName(p []rune, i int) []rune {
	if p[i] != '{' {
		return nil
	}
	j := i + 1
	for j < len(p) && c10IsNameRune(p[j]) {
		j++
	}
	return p[i+1 : j]
}

var c10CanonCache = map[string]string{}

func c10CanonName(name string) string {
	if v, ok := c10CanonCache[name]; ok {
		return v
	}
	v := ""
	func() {
		defer func() { recover() }()
		t, err := syntax.Parse(`\p{`+name+`}`, syntax.ParseOptions{})
		if err != nil || len(t.Root.Children) != 1 || t.Root.Children[0].Set == nil {
			return
		}
		_, cats, _, _, _, _, _ := syntax.VerifCharSetFields(t.Root.Children[0].Set)
		if len(cats) == 1 {
			v = cats[0].Cat
		}
	}()
	c10CanonCache[name] = v
	return v
}

// ---- inputs ----

var c10OptSets = []syntax.RegexOptions{
	0, 0, 0, syntax.IgnoreCase, syntax.IgnorePatternWhitespace, syntax.ECMAScript, syntax.RE2, syntax.ECMAScript | syntax.Unicode,
	syntax.Multiline | syntax.Singleline, syntax.ExplicitCapture, syntax.RightToLeft, syntax.IgnoreCase | syntax.IgnorePatternWhitespace,
	syntax.RE2 | syntax.IgnoreCase, syntax.ECMAScript | syntax.IgnoreCase, syntax.RightToLeft | syntax.IgnoreCase, syntax.Multiline,
	syntax.Singleline | syntax.ECMAScript, syntax.RE2 | syntax.Multiline, syntax.Unicode,
	syntax.IgnoreCase | syntax.Multiline | syntax.ExplicitCapture | syntax.Singleline | syntax.IgnorePatternWhitespace,
}

// one pattern per construct and per error kind of the modelled fragment (coverage gates must not depend on the seed)
var c10Corpus = []string{
	// alternation, groups, lookaround, atomic, inline options, comments
	``, `a`, `ab|cd`, `a|b|c`, `a|bc|d|[x-z]|\d`, `(a)`, `(a)(b)`, `(?:a)`, `(?:ab|cd)e`, `(?<n>a)`, `(?'n'a)`, `(?<2>a)(b)`, `(?<n>a)(b)\k<n>\1\2`, `(a)\1`, `\k<1>(a)`,
	`(?=a)b`, `(?!a)b`, `(?<=a)b`, `(?<!ab)c`, `(?<=a|bc)d`, `(?>a)`, `(?>a*)b`, `(?>.*)a`, `(?>[^a]+)b`, `(?>[ab]*)c`, `(?>.+?)a`, `(?>[ab]{2,}?)`, `(?>\d*)`, `(?>(?>a+))`, `(?>a|b)`, `(?>ab|cd)`, `(?>)`, `(?=)`, `(?!)`, `(?i)a`, `(?i:a)b`, `a(?i)b(?-i)c`, `(?imnsx-imnsx:a)`,
	`(?x) a b # c` + "\n" + ` d`, `(?x: a b )c d`, `(?#comment)a`, `a(?#c)*`, `a(?#c`, `(?n)(a)(?<x>b)`, `(?s).`, `(?m)^a$`, `(?i)[a-c]x`, `((a)|b)*`, `(a|b)+?`, `(?:a|b|)c`, `()`, `(|a)`, `a||b`, `|`, `(?:)`, `(?:)*`,
	// quantifiers
	`a*`, `a+`, `a?`, `a{2}`, `a{2,}`, `a{2,3}`, `a*?`, `a+?`, `a??`, `a{2}?`, `a{2,}?`, `a{2,3}?`, `a{0}`, `a{1}`, `a{0,0}`, `a{1,1}`, `a{65}`, `a{64}`, `ab*`, `ab{3}`, `(ab)*`, `(ab){2,3}`, `(?:a*)*`, `(?:a+)?`, `(?:a{2}){3}`,
	`(?:a{2,3}){2}`, `(?:a*?)*?`, `(?:a{100,105}){3}`, `(?:(?:ab)*)+`, `(?:(?:ab){2}){3}`, `[ab]*`, `[ab]+?`, `.*`, `.+?`, `\d{3}`, `\w*?`, `(?>a+)?ab`, `(?>a*)+`, `(?>a{2}){3}`, `(?:a{2147483647}){2}`, `(?:a{2,}){2147483647}`,
	`*`, `+a`, `?`, `{1}`, `a**`, `a+*`, `a*{2}`, `a{2}{3}`, `a{3,2}`, `a{`, `a{1`, `a{1,`, `a{,2}`, `a{x}`, `a{1,x}`, `{`, `a{2147483648}`, `a{1,2147483648}`, `(*)`, `(?:+)`, `|*`, `^*`, `$+`, `\b?`, `(?=a)*`, `(?<=a)+`,
	`a {2}`, `(?x)a {2}`, `(?x)a {b`, `(?x)a{ 2}`, `(?x) *`, `(?x)a* *`, `(?x)a #c` + "\n" + `*`,
	// anchors, dot, shorthands, back-references
	`^a$`, `.`, `\b\B\A\z\Z\G`, `\w\d\s\W\D\S`, `\w+\s*\d?`, `a.b`, `\ba`, `a\b`, `\1`, `\9`, `\10`, `(a)\2`, `\k<n>`, `\k<n`, `\k`, `\k<>`, `(?<n>a)\k'n'`, `(?<n>a)\<n>`, `(a)\<1>`, `(a)\k<2>`, `(?<n>)\k<m>`,
	`(a)(b)(c)(d)(e)(f)(g)(h)(i)(j)\10\11`, `(a)\18`, `(a)\81`,
	// bracket classes
	`[a]`, `[ab]`, `[a-c]`, `[^a]`, `[^ab]`, `[a-cx-z0]`, `[\d]`, `[\w-]`, `[\s\S]`, `[^\d\w]`, `[\x41-\x{43}]`, `[\n\t]`, `[\cA-\cC]`, `[\]a]`, `[]a]`, `[^]a]`, `[a-]`, `[-a]`, `[a\-z]`, `[--/]`, `[a-z-[aeiou]]`, `[a-z-[m-p-[n]]]`,
	`[\w-[\d]]`, `[a-[b]]`, `[a-c-[b]d]`, `[a-[b]d]`, `[a-[b]c-d]`, `[a-[b]`, `[z-a]`, `[a-\d]`, `[\d-a]`, `[a`, `[`, `[^`, `[a-`, `[\`, `[\q]`, `[\x4]`, `[\p{L}]`, `[\P{Lu}\d]`, `[\pL]`, `[\p{Foo}]`, `[\p{L]`, `[\p]`, `[a-\p{L}]`, `[[:alpha:]]`, `[[:^digit:]x]`, `[[:digit]x]`, `[[:foo]x]`, `[a[:digit]`, `[[:^alpha]]`, `[[:digit:`, `[[:digit:x]`, `[[:]`, `[[::]]`, `[a-[:digit:]]`,
	`[[:foo:]]`, `[[:alpha:]`, `[[:alpha:x]`, `[[a]]`, `[a[:b]`, `[\x00-\x60b-\x{10FFFF}]`, `[\x00-\x{10FFFF}]`, `[\x01-\x{10FFFF}]`, `[\x00-\x{10FFFE}]`, `[\x00-a-[a]]`, `[a][a]`, `[ab][ab][ab]`, `[ab][ab]*`, `[ab]*[ab]`, `[ab]+[ab]*`, `[ab]{2}[ab]{3,}`,
	`[^a][^a]`, `[^a]*[^a]`, `.*.`, `..`, `\d\d`, `\d\d+`, `\d+\d`, `aa*`, `a*a`, `a+a+`, `a*aab`, `a*ab`, `a+b`, `a?aa`, `a{2}a`, `aa{2}`, `a*?a`, `a+?ab`, `(?i)k`, `(?i)ab`, `(?i)a1`, `(?i)12`, `(?i)[k]`, `(?i)σ`, `(?i)\p{Lu}`, `(?i)[\p{Ll}x]`,
	`\p{L}`, `\P{L}`, `\pL`, `\pZ`, `\p{Greek}`, `\p{IsGreek}`, `\p{Foo}`, `\p{`, `\p{L`, `\p`, `\pX`, `\P`, `\p{Lu}\p{Lu}`, `\p{Lowercase_Letter}`, `\p{wb}`, `\p{Word_Break}`, `[\p{sb}]`, `\P{gcb}x`, `\p{wb=ALetter}`, `\p{Word_Break=Numeric}+`, `\p{emoji}`, `\p{Math}`, `\p{sb=Lower}`, `\p{Sentence_Break}`,
	// escapes (the ParseLit chain)
	`\a\e\f\n\r\t\v`, `\x41B\x{43}\103\cD`, `\0`, `\08`, `\400`, `\x4`, `\x{}`, `\x{110000}`, `\x{41`, `\u004`, `\c`, `\c!`, `\q`, `\`, `a\`, `\.\*\+\?\(\)\[\]\{\}\|\^\$\#\ `, `\x{D800}{2}`, `\x{D800}{2}?`, `(?>\x{DC00}{3}?)`,
	// conditionals and balancing groups
	`(a)?(?(1)b|c)`, `(a)?(?(1)b)`, `(?<n>a)?(?(n)b|c)`, `(?(a)b|c)`, `(?(a)b)`, `(?(?=a)b|c)`, `(?(?!a)b|c)`, `(?(?<=a)b|c)`, `(?((a))b|c)`, `(?(1)a|b)`, `(?(1`, `(?(1x)a)`, `(a)(?(1)a|b|c)`, `(?(a)b|c|d)`, `(?()a|b)`, `(?(`, `(?(a`,
	`(?(?#c)a|b)`, `(?(?'n'a)b)`, `(?(?<n>a)b)`, `(?(?i)a|b)`, `(?(a)(?i)b|c)`, `(?(n)a|b)`, `(?<n>a)(?<-n>b)`, `(?<a>a)(?<b-a>b)`, `(?<a>a)(?<1-a>b)`, `(a)(?<-1>b)`, `(?<a-b>x)`, `(?<-b>x)`, `(?<a>)(?<b-a`, `(?<a>)(?<b-`, `(?<a>)(?<b-a!>x)`,
	`(?<a>)(?<b-$>x)`, `(a)(?<2-1x>b)`, `(?<a>x)(?'b-a'y)`,
	// group-open errors and odd spellings
	`(`, `)`, `(a`, `a)`, `(?`, `(?<`, `(?<n`, `(?<n>`, `(?<n>a`, `(?'n>a)`, `(?<n'a)`, `(?<0>a)`, `(?<1a>b)`, `(?<n!>a)`, `(?<!`, `(?<=`, `(?'=a)`, `(?'!a)`, `(?<$>a)`, `(?a)`, `(?ia)`, `(?i`, `(?-`, `(?i-`, `(?P<n>a)`, `(?P=n)`, `(?)`, `(?)a`, `((?))`,
	`(?<99999999999>a)`, `\99999999999`, `(?<n>a)(?<n>b)`, `(?<n>a)|(?<n>b)\k<n>`, `(?<3>a)(b)(?<5>c)(d)`, `(?<a>1)(2)(?<b>3)(4)`,
	// a subtraction written where a range was expected whose class starts with a literal ']' and holds parentheses / brackets:
	// the capture pre-scan must skip it as a unit (a5090c5: it closed the outer class at the first ']' and lost step with the main pass)
	`(?<1>a)(b)`, `(a)(?<1>b)`, `(a)(?<n>b)(?<5>c)`, `(?<2>a)(b)(?<n>c)`, `(?<2>x)(?<2>y)(b)`, `(?<2>x)(?'2'y)(?<2>z)(w)`,
	// digits that start with '0' are not filed by the pre-scan (5afce6b)
	`(?<x>q)(?<02>b)(a)`, `(?<x>q)(?<02>b)(a)(c)`, `(?<01>b)(a)`, `(?<01>b)(?<1>a)(c)`, `(?<x>q)(?'02'b)(a)`, `(?<x>q)(?<02-x>b)(a)`, `(?<x>q)(?<00>b)(a)`, `(a)(?<01>b)\1`,
	`(?n:[a-[](]])(b)`, `(?n:[a-[](]])(?<x>b)(c)`, `[a-[](]](b)\1`, `([a-[])]])`, `(?x:[a-[]#]])(b)`, `[a-[]b]]`, `[a-[^]]]`, `[a-[][]](b)`, `[a-[](]`, `[a-[](]]x]`, `(?i:[a-[](]])(b)`, `[\p-x-[](]](b)`,
}

// RE2- and ECMAScript-specific spellings (run under those option sets as well as the others)
var c10CorpusDialect = []string{
	`(?P<n>a)(?P=n)`, `(?P<n>a)\k<n>`, `(?P=m)`, `(?P=`, `(?P=n`, `(?P<n`, `(?P<>a)`, `(?P<n!>a)`, `(?P>a)`, `(?P<1>a)`, `(?P=!)`, `[[:alpha:][:^space:]]+`, `[[:word:][:digit:]]`, `[[:foo:]]`, `$`, `\Z`, `\w\W\s\S\d\D`, `[\w\s\D]`,
	`[]`, `[^]`, `[]a]`, `[a-\d]`, `[\d-a]`, `[\pL]`, `[a-\p]`, `[\p-z]`, `[\p-a]`, `[a-\P]`, `\p{L}`, `\pL`, `\u{41}`, `\u{}`, `\x{41}`, `\k<n>`, `\k`, `\8`, `\18`, `(a)\18`, `.`, `(?s).`, `\b\B`, `(?<n>a)`, `(?<=a)b`, `(?<!a)b`, `\1(a)`,
	`\q`, `\c`, `\x4`, `\u00`, `a{2}`, `(?i)[\W]`, `(?i)\w`, `(?i)[k\d]`,
	// (?P=name) as the condition parenthesis of (?( ... ): not a back-reference there (4f8aca1: it left the conditional without a condition child)
	// digits as a group name under MaintainCaptureOrder / RE2: the main pass reads them as the name the pre-scan filed (2b27550)
	`(?<x>q)(?<02>b)(a)`, `(?P<x>q)(?<02>b)(a)(c)`, `(?P<02>q)(?<02>b)(?<2>c)(a)`,
	`(?<2>x)(?P<2>y)(?<2>z)(w)`, `(?<1>a)(b)`, `(a)(?<1>b)`, `(a)(?<n>b)(?<5>c)`, `(?<2>a)(b)(?<n>c)`, `(?<2>x)(?<2>y)(b)`, `(?<3>a)(?<-3>b)`, `(?<a>x)(?<2-a>y)(z)`, `(?<0>a)`, `(?<2>x)(?P<2>y)\k<2>(w)\2`,
	`(?P<a>x)(?(?P=a)b)`, `(?P<a>x)(?(?P=a)b|c)`, `(?P<a>x)(?(?P=a)b|c|d)`, `(?P<a>x)(?(?P=a))`, `(?(?P=a)b)`, `(?P<a>x)(?(a)(?P=a)b)`, `(?P<a>x)(?((?P=a))b)`,
	// a shorthand class or \p in range position (ECMAScript): the capture pre-scan clears its range flag and moves its cursor like the full scan
	// (c605b5f: the stale flag made it leave the class at \PL and count the "(" inside as a group)
	`(?n:[a-\d\PL(])(b)`, `(?n:[a-\w\PL(])(b)`, `(?n:[a-\s\PL(])(b)`, `(?n:[a-\D\pL(])(b)`, `[a-\d\PL(](b)\1`, `(?n:[a-\p\PL(])(b)`, `(?n:[\p-x-\PL(])(b)`, `(?n:[\p-x\PL(])(b)`, `(?n:[a-\d\PL(])(?<x>b)(c)`, `[a-\d(]`, `[a-\d\PL]`, `[a-\w-z\PL(](b)`, `(?x:[a-\d\PL#(])(b)`,
}

var c10InsertFrags = []string{"(", ")", "[", "]", "{", "}", "|", "*", "+", "?", "\\", "^", "$", ".", "(?", "(?:", "(?<n>", "(?=", "(?<=", "(?!", "(?>", "(?#", "(?i)", "(?x:", "\\1", "\\k<n>", "\\d", "\\p{L}", "{2}", "{2,}", "{1,3}?", "[^", "-[", "#", " ", "a", "-", "a-[]", "(?(?P=", "a-\\d", "\\PL"}

var c10TimeIn, c10TimeReal time.Duration

type c10Case struct {
	pat  string
	o    syntax.RegexOptions
	mco  bool
	kind string // corpus | ast | harvest | mutant
}

func legC10Parse(c *Ctx) {
	c.Rule("model parse (coq/Model/Parser.v: countCaptures, scanRegex with scanGroupOpen / scanCharSet / scanBackslash / quantifiers, and the mandatory reducers of tree.go) vs syntax.Parse with the optional rewrite families gated off (mask 31): PR_Err <=> parse error of the same code, PR_Tree => exact tree (T, Options, Ch, M, N, Str, CharSet fields, children) and capture table, and on that tree the driver's two checks hold (every group number of a Capture / Ref / BackRefCond node is a key of the capture table; the RightToLeft bit changes only at lookaround nodes), PR_Outside counted. Inputs: a fixed corpus of one pattern per construct / error kind, patterns printed from random ASTs (full generator syntax), every harvested test pattern, byte-level mutants of all of these (truncation, deletion, insertion of metacharacters and group openers, byte replacement), each under option sets drawn from 20 combinations of {IgnoreCase, Multiline, ExplicitCapture, Singleline, IgnorePatternWhitespace, RightToLeft, ECMAScript, RE2, Unicode} and MaintainCaptureOrder; non-trivial = compared (inside the fragment) and not a plain literal (distinct by pattern, options)")
	var cases []c10Case
	for k, p := range c10Corpus {
		// every pattern under the six basic option sets, three of the other eleven in rotation, and MaintainCaptureOrder
		for _, i := range []int{0, 3, 4, 5, 6, 10} {
			cases = append(cases, c10Case{p, c10OptSets[i], false, "corpus"})
		}
		rest := []int{7, 8, 9, 11, 12, 13, 14, 15, 16, 17, 18, 19}
		for j := 0; j < 3; j++ {
			cases = append(cases, c10Case{p, c10OptSets[rest[(k*3+j)%len(rest)]], false, "corpus"})
		}
		cases = append(cases, c10Case{p, 0, true, "corpus"})
	}
	for _, p := range c10CorpusDialect {
		for _, o := range []syntax.RegexOptions{0, syntax.RE2, syntax.ECMAScript, syntax.ECMAScript | syntax.Unicode, syntax.RE2 | syntax.IgnoreCase, syntax.ECMAScript | syntax.IgnoreCase} {
			cases = append(cases, c10Case{p, o, false, "corpus"})
		}
	}
	var seeds []string
	for _, p := range genPatterns(c.Rng, c.N(1200, 30000), true) {
		cases = append(cases, c10Case{p.pat, syntax.RegexOptions(p.o.bits()), false, "ast"})
		seeds = append(seeds, p.pat)
	}
	harv := harvestedPatterns()
	for _, h := range harv {
		cases = append(cases, c10Case{h, 0, false, "harvest"})
		if c.Rng.Chance(50) {
			cases = append(cases, c10Case{h, Pick(c.Rng, c10OptSets), c.Rng.Chance(15), "harvest-opts"})
		}
	}
	seeds = append(seeds, harv...)
	seeds = append(seeds, c10Corpus...)
	nMut := c.N(5000, 150000)
	for i := 0; i < nMut; i++ {
		s := Pick(c.Rng, seeds)
		var m string
		switch c.Rng.Intn(4) {
		case 0:
			m = mutatePattern(c.Rng, s)
		case 1: // truncation
			b := []byte(s)
			if len(b) > 0 {
				b = b[:c.Rng.Intn(len(b))]
			}
			m = string(b)
		default: // inserted metacharacter / group opener
			b := []byte(s)
			k := c.Rng.Intn(len(b) + 1)
			m = string(b[:k]) + Pick(c.Rng, c10InsertFrags) + string(b[k:])
		}
		if len(m) > 120 {
			m = m[:120]
		}
		cases = append(cases, c10Case{m, Pick(c.Rng, c10OptSets), c.Rng.Chance(10), "mutant"})
	}

	t0 := time.Now()
	ins := make([][]int64, len(cases))
	legs := make([]int, len(cases))
	impl := make([][]int64, len(cases))
	real := make([]c10Real, len(cases))
	typesOf := make([]map[int]bool, len(cases))
	for i, cs := range cases {
		pr := []rune(cs.pat)
		ta := time.Now()
		ins[i] = c10ModelIn(pr, cs.o, cs.mco, false)
		legs[i] = 1001
		tb := time.Now()
		r := c10ParseReal(cs.pat, cs.o, cs.mco)
		c10TimeIn += tb.Sub(ta)
		c10TimeReal += time.Since(tb)
		real[i] = r
		typesOf[i] = map[int]bool{}
		switch {
		case r.hang:
			impl[i] = []int64{3}
		case r.panic != "":
			impl[i] = []int64{2, 0}
		case r.err != nil:
			impl[i] = []int64{0, 1, c10ErrCode(r.err)}
		default:
			impl[i] = c10EncTree(r.tree, typesOf[i])
		}
	}
	t1 := time.Now()
	outs, err := runModel(c.ModelBin, legs, ins)
	if err != nil {
		c.Add(&Case{Desc: "c10-parse: model execution failed: " + err.Error(), Direct: "model execution failed"})
		return
	}
	if os.Getenv("VERIF_C10_DEBUG") != "" {
		fmt.Fprintf(os.Stderr, "TIMING prepare+real %.1fs (oracle tables %.1fs, real parser %.1fs) model pre-run %.1fs\n", t1.Sub(t0).Seconds(), c10TimeIn.Seconds(), c10TimeReal.Seconds(), time.Since(t1).Seconds())
	}
	// second chance with the wide rune table for the cases whose oracle tables were too small
	var redo []int
	for i := range cases {
		if len(outs[i]) == 1 && outs[i][0] == -998 {
			redo = append(redo, i)
		}
	}
	if len(redo) > 0 {
		rl := make([]int, len(redo))
		ri := make([][]int64, len(redo))
		for k, i := range redo {
			rl[k] = 1001
			ins[i] = c10ModelIn([]rune(cases[i].pat), cases[i].o, cases[i].mco, true)
			ri[k] = ins[i]
		}
		ro, err := runModel(c.ModelBin, rl, ri)
		if err != nil {
			c.Add(&Case{Desc: "c10-parse: model execution failed: " + err.Error(), Direct: "model execution failed"})
			return
		}
		for k, i := range redo {
			outs[i] = ro[k]
		}
	}

	nodeSeen := map[int]bool{}
	errSeen := map[int64]bool{}
	kinds := map[string]int{}
	kindTotal := map[string]int{}
	outside, compared, incomplete := 0, 0, 0
	harvIn, harvAll := 0, 0
	for i, cs := range cases {
		desc := fmt.Sprintf("parse %+q opts=%#x mco=%v (%s): implementation %s", cs.pat, int(cs.o), cs.mco, cs.kind, c10Describe(real[i]))
		kindTotal[cs.kind]++
		if cs.kind == "harvest" {
			harvAll++
		}
		if real[i].hang {
			c.Add(&Case{Desc: desc, Direct: "syntax.Parse did not return within 10 s", Class: "hang"})
			continue
		}
		if real[i].panic != "" {
			c.Add(&Case{Desc: desc, Direct: "syntax.Parse panicked: " + real[i].panic, Class: "panic"})
			continue
		}
		mo := outs[i]
		if len(mo) == 1 && mo[0] == -998 {
			incomplete++
			if os.Getenv("VERIF_C10_DEBUG") != "" {
				fmt.Fprintln(os.Stderr, "INCOMPLETE", desc)
			}
			c.Add(&Case{Desc: desc, Class: "oracle-incomplete"})
			continue
		}
		if len(mo) == 2 && mo[0] == 0 && mo[1] == 2 {
			outside++
			if os.Getenv("VERIF_C10_DEBUG") != "" {
				fmt.Fprintln(os.Stderr, "OUTSIDE", desc)
			}
			c.Add(&Case{Desc: desc, Class: "outside-" + cs.kind})
			continue
		}
		compared++
		kinds[cs.kind]++
		if cs.kind == "harvest" {
			harvIn++
		}
		cl := "compared-tree"
		if real[i].err != nil {
			cl = "compared-error"
			errSeen[impl[i][2]] = true
		} else {
			for t := range typesOf[i] {
				nodeSeen[t] = true
			}
		}
		c.Add(&Case{Desc: desc, ModelLeg: 1001, ModelIn: ins[i], ImplOut: impl[i], Nontrivial: strings.ContainsAny(cs.pat, `\()[]{}|*+?^$.`),
			Key: fmt.Sprintf("%q/%d/%v", cs.pat, int(cs.o), cs.mco), Class: cl})
	}
	c.Flush()
	c.Hist(fmt.Sprintf("compared=%d outside=%d oracle-incomplete=%d", compared, outside, incomplete))
	c.Hist(fmt.Sprintf("harvested patterns inside the fragment: %d of %d (%.1f%%)", harvIn, harvAll, 100*float64(harvIn)/float64(max(harvAll, 1))))
	for _, k := range []string{"corpus", "ast", "harvest", "harvest-opts", "mutant"} {
		c.Hist(fmt.Sprintf("inside the fragment, %s: %d of %d", k, kinds[k], kindTotal[k]))
	}
	for _, code := range c10ErrGated {
		c.Gate("error kind hit on a compared case: "+c10ErrNames[code], errSeen[code])
	}
	for t, name := range c10NodeNames {
		c.Gate("node type in a compared tree: "+name, nodeSeen[t])
	}
	c.Gate("harvested patterns inside the fragment > 0", harvIn > 0)
	c.Gate("random-AST patterns inside the fragment", kinds["ast"] > kindTotal["ast"]/2)
	c.Gate("mutants inside the fragment", kinds["mutant"] > kindTotal["mutant"]/2)
	c.Gate("oracle tables complete on all but a few cases", incomplete*100 <= len(cases))
}

func c10Describe(r c10Real) string {
	switch {
	case r.hang:
		return "hangs"
	case r.panic != "":
		return "panics: " + r.panic
	case r.err != nil:
		return "error " + r.err.Error()
	}
	return "tree " + strings.ReplaceAll(r.tree.Dump(), "\n", " / ")
}
