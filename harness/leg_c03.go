package main

// C03, leg c03-scanmodel: ties the Coq model of the scan loop (coq/Model/Scan.v) to runner.go.
// For a pattern, an input and a start offset the leg records, through the verif hooks,
//   - the REAL candidate finder's answer at every position (VerifFindFirstChar: minimum-length
//     cut-off, found?, Runtextpos left), and
//   - the REAL matcher's answer at every position (VerifAttemptPos: match or not, Runtextpos left -
//     this is where the bump-along shortcut shows),
// then (a) replays Scan.scan and Scan.naive_scan over these tables in the extracted model and
// requires both to equal what the real search returns for previousMatchLength in {-1,0,1}, and
// (b) runs the Coq checkers of the theorem's hypotheses (H1)-(H3) on the tables: when they hold,
// theorem C03_scan_finder_sound says the accelerated and the accelerator-free loop agree for EVERY
// start offset and previousMatchLength of this pattern/input/\G-origin, not only the sampled ones.

import (
	"fmt"

	"github.com/dlclark/regexp2/v2"
)

func init() {
	registerLeg("c03-scanmodel", "C03", legC03ScanModel)
}

// shapes for which tree.go inserts UpdateBumpalong (leading unbounded single-character loop), incl.
// loops under atomic groups and under a leading atomic group that is followed by more pattern
var c03BumpShapes = []string{
	`a*b`, `a+b`, `\w+@x`, `[ab]*c+d`, `a*?b`, `a+?b`, `[^,]*?,x`, `(?>a*)b`, `(?>a+)b`, `(?>a*b)`, `(?>a*?b)`,
	`(?>a+b?)c`, `(?>a*b?)c`, `(?>(?>a+)b?)c`, `(?>a+?b?)c`, `(?>[ab]+?b?)c`, `(?>a*?b?)c`, `(?:(?>a+?b?))c`,
	`a*`, `a+?`, `.*b`, `.*?b`, `\s*=`, `a*(?<=\Ga*)b`, `a*\Gb`, `(a*)b`, `(?:a*|b)c`,
	// negated sets at the start (regression: LeadingPrefixes were built from the excluded characters)
	`[^bc]{2}`, `[^b-d]{2}`, `[^b-c][^b-c]`, `[^a]{2}b`, `[^ab][cd]`,
}

func legC03ScanModel(c *Ctx) {
	c.Rule("patterns: the FindMode shapes of c03-accel x {LTR,RTL} x {code-gen analysis off,on}, bump-along shapes (leading unbounded loop, also inside atomic groups), random ASTs; inputs: near-misses of the pattern literals; per (pattern,input,start): the real finder answer and the real single-attempt answer (match, Runtextpos left) at EVERY position are recorded through the hooks; compared: Scan.scan and Scan.naive_scan of the Coq model over these tables vs the real search for previousMatchLength -1, 0, 1 (model leg 301), the match returned vs the match of the single attempt at its position, and the Coq checkers of hypotheses H1-H3 over the tables must all answer true (model leg 302); for programs with a Beginning/Start/EndZ/End bit in Code.Anchors the model of findFirstCharDefault's anchor part must reproduce the real finder's (found, Runtextpos) at every position (model leg 303); non-trivial = some accelerator moved (finder skipped or gave up, minimum-length cut, bump-along) and a match exists")
	pats := shapePatterns(c.Rng)
	for _, s := range c03BumpShapes {
		for _, cg := range []bool{false, true} {
			pats = append(pats, patCase{pat: s, alpha: []rune{'a', 'b', 'c', 'd', 'x', '@', ',', ' ', '=', '\n'}, cg: cg})
		}
	}
	// programs with a leading Beginning/Start/EndZ/End anchor in both directions (a right-to-left
	// pattern's leading anchor is the one at its right end), with and without a Boyer-Moore prefix
	for _, s := range []string{`\Aabc`, `\Aa`, `\Gab`, `\Gabc`, `\z`, `\Z`, `$`, `\A\z`, `\A\Z`, `(?=ab)\Aa`, `(?m)$`} {
		for _, cg := range []bool{false, true} {
			pats = append(pats, patCase{pat: s, alpha: []rune{'a', 'b', 'c', '\n'}, cg: cg})
		}
	}
	for _, s := range []string{`abc\z`, `ab\Z`, `b$`, `\A`, `(?<=a)\A`, `b\G`, `abc\G`, `\z`, `\Z`, `\A\z`, `a\n?\Z`} {
		for _, cg := range []bool{false, true} {
			pats = append(pats, patCase{pat: s, o: Opts{RTL: true}, alpha: []rune{'a', 'b', 'c', '\n'}, cg: cg})
		}
	}
	pats = append(pats, genPatterns(c.Rng, c.N(150, 4000), true)...)
	seen := map[string]int{}
	for _, p := range pats {
		re, err := p.compile()
		if err != nil {
			continue
		}
		code := re.VerifCode()
		minReq := 0
		if code.FindOptimizations != nil {
			minReq = code.FindOptimizations.MinRequiredLength
		}
		rtl := p.o.RTL
		for _, in := range accelInputs(c.Rng, p, c.N(6, 24)) {
			n := len(in)
			if n > 14 {
				in = in[:14]
				n = 14
			}
			starts := []int{0, c.Rng.Intn(n + 1)}
			if rtl {
				starts[0] = n
			}
			if starts[1] == starts[0] {
				starts = starts[:1]
			}
			for _, start := range starts {
				c03OneStart(c, p, re, in, start, minReq, seen)
			}
		}
	}
	for _, g := range []string{"finder-skipped", "finder-gave-up", "finder-gave-up-not-at-far-end", "min-length-cut", "bump-along-moved", "rtl", "prevlen0-at-far-end", "match", "anchor-model", "anchor-model-with-bm"} {
		c.Gate("scan-model event exercised: "+g, seen[g] > 0)
	}
	for k, v := range seen {
		c.res.Histogram["event:"+k] = v
	}
}

func c03OneStart(c *Ctx, p patCase, re *regexp2.Regexp, in []rune, start, minReq int, seen map[string]int) {
	n := len(in)
	rtl := p.o.RTL
	stop := n
	if rtl {
		stop = 0
		seen["rtl"]++
	}
	type fe struct {
		cut, found bool
		np         int
	}
	ft := make([]fe, n+1)
	matches := make([]*regexp2.Match, n+1)
	endpos := make([]int, n+1)
	proposable := make([]bool, n+1)
	moved := false
	for q := 0; q <= n; q++ {
		func() {
			defer func() {
				if r := recover(); r != nil {
					ft[q] = fe{false, false, -7}
				}
			}()
			cut, found, np := re.VerifFindFirstChar(in, q, start)
			ft[q] = fe{cut, found, np}
		}()
		f := ft[q]
		switch {
		case f.cut:
			seen["min-length-cut"]++
			moved = true
		case !f.found:
			seen["finder-gave-up"]++
			if f.np != stop {
				seen["finder-gave-up-not-at-far-end"]++
			}
			moved = true
		case f.np != q:
			seen["finder-skipped"]++
			moved = true
		}
		if !f.cut && f.found && f.np >= 0 && f.np <= n {
			proposable[f.np] = true
		}
		m, ep, err := re.VerifAttemptPos(in, q, start)
		if err != nil {
			c.Hist("timeout-skipped")
			return
		}
		matches[q], endpos[q] = m, ep
	}
	// model input
	enc := []int64{int64(n), b2i(rtl), int64(minReq), int64(n + 1)}
	ftxt := ""
	for q := 0; q <= n; q++ {
		f := ft[q]
		if f.cut {
			// the loop never calls the finder here (cut-off first): any sound answer will do
			enc = append(enc, 1, int64(q))
			ftxt += fmt.Sprintf(" %d:cut", q)
		} else {
			enc = append(enc, b2i(f.found), int64(f.np))
			ftxt += fmt.Sprintf(" %d:%v@%d", q, f.found, f.np)
		}
	}
	enc = append(enc, int64(n+1))
	etxt := ""
	for q := 0; q <= n; q++ {
		if matches[q] != nil {
			enc = append(enc, int64(q), int64(endpos[q]))
			etxt += fmt.Sprintf(" %d:match", q)
			seen["match"]++
		} else {
			ep := endpos[q]
			if ep != q {
				seen["bump-along-moved"]++
				moved = true
			}
			if !proposable[q] {
				// the loop only runs the matcher at positions the finder proposes; elsewhere the
				// position a failed attempt would leave is unobservable
				ep = q
			}
			enc = append(enc, -1, int64(ep))
			etxt += fmt.Sprintf(" %d:fail@%d", q, endpos[q])
		}
	}
	// the anchor part of findFirstCharDefault (Model/Scan.v ffc_default) against the real finder
	code := re.VerifCode()
	if an := int(code.Anchors); an&(1|4|16|32) != 0 {
		in3 := encRunes(in)
		in3 = append(in3, b2i(rtl), int64(an), int64(start), b2i(code.BmPrefix != nil), int64(n+1))
		for q := 0; q <= n; q++ {
			in3 = append(in3, b2i(code.BmPrefix != nil && code.BmPrefix.IsMatch(in, q, 0, n)))
		}
		in3 = append(in3, int64(n+1))
		var out3 []int64
		for q := 0; q <= n; q++ {
			in3 = append(in3, b2i(!ft[q].cut))
			if !ft[q].cut {
				out3 = append(out3, b2i(ft[q].found), int64(ft[q].np))
			}
		}
		seen["anchor-model"]++
		if code.BmPrefix != nil {
			seen["anchor-model-with-bm"]++
		}
		c.Add(&Case{Desc: fmt.Sprintf("pattern %q opts=%s cg=%v input %+q Runtextstart=%d Anchors=%#x bm=%v [findFirstCharDefault anchor part: (found, Runtextpos) at every position not cut by the minimum length]", p.pat, p.o, p.cg, string(in), start, an, code.BmPrefix != nil),
			ModelLeg: 303, ModelIn: in3, ImplOut: out3, Nontrivial: moved, Class: "anchor-finder"})
	}
	base := fmt.Sprintf("pattern %q opts=%s cg=%v input %+q start=%d minlen=%d finder[pos:found@Runtextpos]:%s attempts[pos:result@Runtextpos]:%s", p.pat, p.o, p.cg, string(in), start, minReq, ftxt, etxt)
	anyMatch := false
	for _, m := range matches {
		if m != nil {
			anyMatch = true
		}
	}
	c.Add(&Case{Desc: base + " [hypotheses H1,H2,H3 of C03_scan_finder_sound on the recorded tables]", ModelLeg: 302, ModelIn: enc,
		ImplOut: []int64{1, 1, 1}, Nontrivial: moved && anyMatch, Class: "hypotheses"})
	for _, prevlen := range []int{-1, 0, 1} {
		if prevlen == 0 && start == stop {
			seen["prevlen0-at-far-end"]++
		}
		var real *regexp2.Match
		var err error
		func() {
			defer func() {
				if r := recover(); r != nil {
					err = fmt.Errorf("panic: %v", r)
				}
			}()
			real, err = re.VerifScanFrom(in, start, prevlen)
		}()
		cs := &Case{Desc: fmt.Sprintf("%s prevlen=%d", base, prevlen), ModelLeg: 301, Class: "scan-replay", Nontrivial: moved && real != nil}
		cs.ModelIn = append(append([]int64{}, enc...), int64(start), int64(prevlen))
		if err != nil {
			if len(err.Error()) > 6 && err.Error()[:6] == "panic:" {
				cs.Direct = "real search panicked: " + err.Error()
				cs.ModelLeg = 0
				c.Add(cs)
			} else {
				c.Hist("timeout-skipped")
			}
			continue
		}
		if real == nil {
			cs.ImplOut = []int64{0, 0, 0, 0}
		} else {
			pos := real.RuneIndex
			if rtl {
				pos = real.RuneIndex + real.RuneLength
			}
			cs.ImplOut = []int64{0, 1, int64(pos), 0, 1, int64(pos)}
			if pos < 0 || pos > n || matches[pos] == nil || !eqInts(encMatch(real, nil), encMatch(matches[pos], nil)) {
				at := "nil"
				if pos >= 0 && pos <= n {
					at = matchStr(matches[pos])
				}
				cs.Direct = fmt.Sprintf("the search returned %s but the single attempt at position %d returns %s", matchStr(real), pos, at)
			}
		}
		c.Add(cs)
	}
}
