package main

// C11 — concurrent use of a Regexp equals sequential use (DESIGN §4 C11).  The theorems of Properties/C11.v
// cover the logic of sharing (every interleaving of the atomic pool/cache actions); these legs back what an
// executable model cannot express:
//  c11-conc      G in {2,8,32} goroutines issue mixed calls on SHARED Regexps and on per-goroutine Regexps that
//                share the global buffer pools; runtime.Gosched is injected inside the library (between attempts,
//                through the findFirstChar hook point) and between calls; every result must equal the
//                precomputed sequential result on a fresh Regexp; afterwards every pooled runner must be runner_ok.
//  c11-race      the same workload in a copy of this harness built with -race, GOMAXPROCS in {1,2,16};
//                any race report or differing result is a violation.
//  c11-writeset  go/parser scan of /repo: every assignment in a function reachable (by name) from the public
//                matching API whose destination is rooted at shared state (*Regexp, *syntax.Code, *CharSet,
//                caches, pools, clock, package-level variables) must be on the allow-list below.

import (
	"bytes"
	"encoding/json"
	"fmt"
	"go/ast"
	"go/parser"
	"go/printer"
	"go/token"
	"os"
	"os/exec"
	"path/filepath"
	"runtime"
	"sort"
	"strings"
	"sync"
	"sync/atomic"
	"time"

	"github.com/dlclark/regexp2/v2"
)

func init() {
	registerLeg("c11-conc", "C11", legC11Conc)
	registerLeg("c11-race", "C11", legC11Race)
	registerLeg("c11-writeset", "C11", legC11WriteSet)
	registerLeg("c11-stress-inner", "C11", legC11StressInner) // run by c11-race inside the -race build only
}

type c11Job struct {
	st     *c12Step
	want   string // canonical result on a freshly compiled Regexp, computed sequentially
	shared bool   // run on the shared Regexp (else on the goroutine's own one)
}

type c11Mismatch struct {
	G    int    `json:"g"`
	Desc string `json:"desc"`
	Got  string `json:"got"`
	Want string `json:"want"`
}

// one concurrent round; returns mismatches and the number of calls made
func c11Round(rng *Rng, G, perG int, inject bool) (bad []c11Mismatch, calls int, lateTimeouts int) {
	// a round takes a few hundred ms; a call that never returns (dead timeout clock, deadlock) must not hang the check
	dog := time.AfterFunc(150*time.Second, func() {
		buf := make([]byte, 1<<16)
		buf = buf[:runtime.Stack(buf, true)]
		fmt.Fprintf(os.Stderr, "c11: a round of %d goroutines did not finish within 150s (deadlock, or a timeout that never fires)\n%s\n", G, clip(string(buf), 6000))
		os.Exit(3)
	})
	defer dog.Stop()
	specs := c12Specs()
	repls := c12Repls()
	texts := make([]string, 10)
	for i := range texts {
		texts[i] = c12Text(rng)
	}
	texts[0] = c12Catastrophic
	ngroups := make([]int, len(specs))
	for i, sp := range specs {
		ngroups[i] = len(sp.compile().GetGroupNumbers())
	}
	// the jobs and their sequential results
	jobs := make([][]c11Job, G)
	nTimeoutJobs := 0
	for g := 0; g < G; g++ {
		for k := 0; k < perG; k++ {
			st := &c12Step{re: rng.Intn(len(specs)), text: Pick(rng, texts), startAt: -1, count: -1}
			st.op = Pick(rng, []int{1, 1, 2, 3, 4, 6, 7, 8, 8, 8, 9, 10, 11})
			if c12IsDeep(st.text) && specs[st.re].timeout != 0 {
				st.text = c12Calm(rng, texts)
			}
			if c12IsCatastrophic(st.text) && specs[st.re].timeout != 0 {
				if nTimeoutJobs >= G/4+2 || st.op >= 8 {
					st.text = c12Calm(rng, texts)
				} else {
					nTimeoutJobs++
				}
			}
			if st.op == 10 && specs[st.re].rtl {
				st.op = 9
			}
			switch st.op {
			case 6, 7:
				st.count = Pick(rng, []int{-1, -1, 1, 3})
			case 8, 9:
				st.repl = rng.Intn(len(repls))
				st.count = Pick(rng, []int{-1, -1, 1, 2})
			case 11:
				st.startAt = Pick(rng, []int{-1, 0, len(st.text)})
			}
			// expected result: the same call on a fresh Regexp, computed sequentially.  On the timed Regexp the
			// expectation for a non-catastrophic input is computed without the deadline (a loaded machine can make
			// a wall-clock timeout fire in the sequential run as well); a late timeout of the concurrent call is
			// tolerated and counted, any other difference is a violation.
			// A text that merely CONTAINS a catastrophic fragment need not be slow for the pattern (an anchored
			// pattern never reaches it), so whether the call is "certainly slow" is measured, not guessed: the
			// reference runs with a deadline far above the real one; if even that expires the call is expected to
			// time out, otherwise its result is the expectation.
			ref := specs[st.re].compile()
			if specs[st.re].timeout != 0 && !c12IsCatastrophic(st.text) {
				ref.MatchTimeout = regexp2.DefaultMatchTimeout
			}
			want := c12Exec(ref, st, repls, ngroups[st.re]).canon
			if specs[st.re].timeout != 0 && strings.HasPrefix(want, "ERR match timeout") {
				// timed out under the real deadline: certainly slow only if a 12x deadline expires as well
				ref = specs[st.re].compile()
				ref.MatchTimeout = 100 * time.Millisecond
				want = c12Exec(ref, st, repls, ngroups[st.re]).canon
				if strings.HasPrefix(want, "ERR match timeout") {
					want = "ERR match timeout"
				}
			}
			jobs[g] = append(jobs[g], c11Job{st: st, want: want, shared: rng.Chance(70)})
		}
	}
	shared := make([]*regexp2.Regexp, len(specs))
	var ctr atomic.Uint64
	for i, sp := range specs {
		shared[i] = sp.compile()
		if inject {
			shared[i].VerifOnScan(func(regexp2.VerifScanStart) { // a yield point inside the library
				if ctr.Add(1)%5 == 0 {
					runtime.Gosched()
				}
			})
		}
	}
	var mu sync.Mutex
	var wg sync.WaitGroup
	var late atomic.Int64
	start := make(chan struct{})
	for g := 0; g < G; g++ {
		wg.Add(1)
		seed := rng.Next()
		go func(g int, seed uint64) {
			defer wg.Done()
			lr := NewRng(seed)
			own := make([]*regexp2.Regexp, len(specs))
			for i, sp := range specs {
				own[i] = sp.compile()
			}
			<-start
			for _, j := range jobs[g] {
				re := own[j.st.re]
				if j.shared {
					re = shared[j.st.re]
				}
				got := c12Exec(re, j.st, repls, ngroups[j.st.re]).canon
				if j.want == "ERR match timeout" && strings.HasPrefix(got, "ERR match timeout") {
					got = j.want
				}
				if got != j.want {
					// a call on the timed Regexp may legitimately run out of wall-clock time when it is descheduled
					if specs[j.st.re].timeout != 0 && strings.HasPrefix(got, "ERR match timeout") {
						late.Add(1)
					} else {
						mu.Lock()
						if len(bad) < 5 {
							bad = append(bad, c11Mismatch{G: G, Desc: c12StepDesc(j.st, specs, repls), Got: clip(got, 300), Want: clip(j.want, 300)})
						}
						mu.Unlock()
					}
				}
				if inject && lr.Chance(30) {
					runtime.Gosched()
				}
			}
		}(g, seed)
	}
	close(start)
	wg.Wait()
	for i := range shared {
		shared[i].VerifOnScan(nil)
		// whatever the pool now holds must be a legal pooled runner
		for k := 0; k < 4; k++ {
			info := shared[i].VerifPoolPeek()
			s := &c12Shared{spec: specs[i], re: shared[i]}
			c12CheckRunnerOK(info, s, func(f string, a ...any) {
				mu.Lock()
				if len(bad) < 5 {
					bad = append(bad, c11Mismatch{G: G, Desc: "after the round, runner pooled by " + specs[i].name, Got: fmt.Sprintf(f, a...), Want: "runner_ok"})
				}
				mu.Unlock()
			})
		}
		keys := shared[i].VerifCacheKeys()
		mx := shared[i].VerifPoolConfig().MaxCachedReplacerDataEntries
		seen := map[string]bool{}
		for _, k := range keys {
			if seen[k] || strings.HasPrefix(k, "\x00") || (mx > 0 && len(keys) > mx) {
				bad = append(bad, c11Mismatch{G: G, Desc: "after the round, replacement cache of " + specs[i].name, Got: fmt.Sprintf("%q", keys), Want: fmt.Sprintf("distinct keys, at most %d, list and map in step", mx)})
				break
			}
			seen[k] = true
		}
	}
	return bad, G * perG, int(late.Load())
}

func clip(s string, n int) string {
	if len(s) > n {
		return s[:n] + "…"
	}
	return s
}

func legC11Conc(c *Ctx) {
	c.Rule("rounds of G in {2,8,32} goroutines x 24 (quick) / 120 (thorough) mixed calls (bool, find, find-all, replace with 40 replacements, replace-func, split, timed and stack-limited matches) on 7 shared Regexps (70%) and per-goroutine Regexps (30%), yields injected inside the library and between calls; expected = the same call on a fresh Regexp computed sequentially; non-trivial = a round (distinct by (G, round))")
	regexp2.SetTimeoutCheckPeriod(time.Millisecond)
	rounds := c.N(16, 80)
	perG := c.N(24, 120)
	for _, G := range []int{2, 8, 32} {
		for r := 0; r < rounds; r++ {
			bad, calls, late := c11Round(c.Rng.Fork(), G, perG, r%2 == 0)
			cs := &Case{Desc: fmt.Sprintf("G=%d round %d: %d concurrent calls, %d late timeouts tolerated", G, r, calls, late), Nontrivial: true,
				Key: fmt.Sprintf("%d-%d", G, r), Class: fmt.Sprintf("G=%d", G)}
			if len(bad) > 0 {
				b, _ := json.Marshal(bad)
				cs.Direct = "concurrent result differs from the sequential one: " + string(b)
			}
			c.Add(cs)
		}
	}
}

// the workload of c11-race, executed inside the -race build; prints one JSON line per configuration
func legC11StressInner(c *Ctx) {
	c.Rule("inner leg of c11-race")
	regexp2.SetTimeoutCheckPeriod(time.Millisecond)
	rounds := c.N(3, 12)
	for _, G := range []int{2, 8, 32} {
		for r := 0; r < rounds; r++ {
			bad, calls, late := c11Round(c.Rng.Fork(), G, c.N(12, 40), true)
			cs := &Case{Desc: fmt.Sprintf("race build GOMAXPROCS=%d G=%d round %d: %d calls, %d late timeouts", runtime.GOMAXPROCS(0), G, r, calls, late),
				Nontrivial: true, Class: fmt.Sprintf("G=%d", G)}
			if len(bad) > 0 {
				b, _ := json.Marshal(bad)
				cs.Direct = "concurrent result differs from the sequential one: " + string(b)
			}
			c.Add(cs)
		}
	}
	regexp2.StopTimeoutClock()
}

func legC11Race(c *Ctx) {
	c.Rule("this harness rebuilt with `go build -race -tags verif`, leg c11-stress-inner run with GOMAXPROCS in {1,2,16}: G in {2,8,32} goroutines, yields injected; a race report (exit code 66 / 'DATA RACE' on stderr) or a differing result is a violation; non-trivial = one configuration")
	src := filepath.Join(c.OutDir, "harness")
	bin := filepath.Join(c.OutDir, "build", "harness-race")
	env := append(os.Environ(), "GOFLAGS=-mod=mod", "GOPROXY=off")
	build := exec.Command("go", "build", "-race", "-tags", "verif", "-o", bin, ".")
	build.Dir, build.Env = src, env
	if out, err := build.CombinedOutput(); err != nil {
		c.Add(&Case{Desc: "go build -race of the harness", Direct: fmt.Sprintf("the race-detector build is unavailable or fails (%v): %s", err, clip(string(out), 800)), Class: "build"})
		return
	}
	for _, procs := range []int{1, 2, 16} {
		res := filepath.Join(c.OutDir, "build", fmt.Sprintf("race-result-%d-%d.json", os.Getpid(), procs))
		cmd := exec.Command(bin, "-legs", "c11-stress-inner", "-tier", c.Tier, "-seed", fmt.Sprint(c.Seed+uint64(procs)), "-model", c.ModelBin,
			"-out", filepath.Join(c.OutDir, "build"), "-known", "/dev/null", "-result", res)
		cmd.Env = append(env, fmt.Sprintf("GOMAXPROCS=%d", procs), "GORACE=exitcode=66 halt_on_error=0")
		var stderr bytes.Buffer
		cmd.Stderr, cmd.Stdout = &stderr, &stderr
		t0 := time.Now()
		err := cmd.Run()
		cs := &Case{Desc: fmt.Sprintf("race build, GOMAXPROCS=%d: %.1fs", procs, time.Since(t0).Seconds()), Nontrivial: true, Class: fmt.Sprintf("procs=%d", procs)}
		races := strings.Count(stderr.String(), "WARNING: DATA RACE")
		if races > 0 {
			cs.Direct = fmt.Sprintf("%d data race report(s); first: %s", races, clip(stderr.String()[strings.Index(stderr.String(), "WARNING: DATA RACE"):], 1800))
		} else if err != nil {
			cs.Direct = fmt.Sprintf("race build run failed: %v: %s", err, clip(stderr.String(), 800))
		}
		if b, e := os.ReadFile(res); e == nil {
			var lr []LegResult
			if json.Unmarshal(b, &lr) == nil {
				for _, r := range lr {
					c.res.Evaluations += r.Evaluations // calls made under the race detector count as evaluations of this leg
					for _, v := range r.Violations {
						if cs.Direct == "" {
							cs.Direct = "under the race build: " + clip(v.Detail, 1200)
						}
					}
				}
			}
			os.Remove(res)
		} else if cs.Direct == "" {
			cs.Direct = "race build run produced no result file"
		}
		c.Add(cs)
	}
}

// ---------- write-set scan ----------

// types whose values are shared between goroutines once a Regexp is compiled / process-wide
var c11SharedTypes = map[string]bool{
	"*Regexp": true, "Regexp": true, "*Code": true, "*syntax.Code": true, "Code": true, "*CharSet": true, "CharSet": true, "*syntax.CharSet": true,
	"*FindOptimizations": true, "*syntax.FindOptimizations": true, "*BmPrefix": true, "*syntax.BmPrefix": true,
	"*replacerDataCache": true, "*fastclock": true, "*atomicTime": true, "*ReplacerData": true, "*syntax.ReplacerData": true,
	"*pooledSliceBuffers[T]": true, "*matchText": true, "*stringByteMapper": true, "*asciiBitmap": true,
	"*FixedDistanceSet": true, "FixedDistanceSet": true, "syntax.FixedDistanceSet": true, "*LiteralAfterLoop": true,
}

// fields of an owned object through which shared state is reached
var c11SharedFields = map[string]bool{"re": true, "code": true, "regex": true}

// the public matching API: everything reachable from here (by name) is match-time code
var c11Roots = []string{"MatchString", "MatchRunes", "FindStringMatch", "FindRunesMatch", "FindStringMatchStartingAt", "FindRunesMatchStartingAt",
	"FindNextMatch", "FindAllStringIndex", "FindAllRunesIndex", "Replace", "ReplaceFunc", "Split", "GetGroupNames", "GetGroupNumbers",
	"GroupNameFromNumber", "GroupNumberFromName", "String", "Runes", "ByteRange", "GroupCount", "GroupByName", "GroupByNumber", "Groups",
	"RightToLeft", "Debug", "MarshalText", "runClock", "StopTimeoutClock", "Escape", "Unescape"}

// allow-list: file:function: destination.  Reviewed by hand; a new entry means new match-time mutation of shared state.
var c11AllowedWrites = map[string]string{
	"fastclock.go:extendClock: fast.start":   "under fast.mu",
	"fastclock.go:extendClock: fast.running": "under fast.mu",
	"fastclock.go:runClock: fast.running":    "under fast.mu",
	"match.go:byteRange: t.byteOffsets":      "lazy cache on the match text the caller owns (documented: ByteRange is not for concurrent use on one Match)",
	"match.go:byteRange: t.byteOffsetsReady": "same",
	"regexp.go:initCaches: re.runnerPool":    "compile time; getRunner calls it lazily only for a Regexp not built by Compile (zero value)",
	"regexp.go:initCaches: re.replaceCache":  "same",
	"regexp.go:add: c.cache[key]":            "under c.mu (replacerDataCache)",
	"regexp.go:add: delete(c.cache)":         "under c.mu (replacerDataCache)",
	// CharSet builder methods: reachable BY NAME only, through Replace -> NewReplacerData -> the replacement-pattern
	// parser, which builds fresh objects; never called on a class of a compiled program (the CharIn path writes nothing)
	"syntax/charclass.go:addSet: c.ranges":              "builder on a fresh class (replacement parser)",
	"syntax/charclass.go:makeAnything: c.anything":      "builder on a fresh class (replacement parser)",
	"syntax/charclass.go:makeAnything: c.categories":    "builder on a fresh class (replacement parser)",
	"syntax/charclass.go:makeAnything: c.ranges":        "builder on a fresh class (replacement parser)",
	"syntax/charclass.go:addCategories: c.categories":   "builder on a fresh class (replacement parser)",
	"syntax/charclass.go:addCaseEquivalences: c.ranges": "builder on a fresh class (replacement parser)",
	"syntax/charclass.go:addRange: c.ranges":            "builder on a fresh class (replacement parser)",
	"syntax/charclass.go:canonicalize: c.ranges[j]":     "builder on a fresh class (replacement parser)",
	"syntax/charclass.go:canonicalize: c.ranges":        "builder on a fresh class (replacement parser)",
	"syntax/charclass.go:canonicalize: c.negate":        "builder on a fresh class (replacement parser)",
	"syntax/charclass.go:canonicalize: c.ranges[0]":     "builder on a fresh class (replacement parser)",
	"syntax/charclass.go:canonicalize: c.categories":    "builder on a fresh class (replacement parser)",
}

type c11Write struct{ file, fn, dst string }

func c11TypeString(e ast.Expr) string {
	var b bytes.Buffer
	printer.Fprint(&b, token.NewFileSet(), e)
	return b.String()
}

func c11RootAndPath(e ast.Expr) (root string, path []string, deref bool) {
	for {
		switch x := e.(type) {
		case *ast.Ident:
			return x.Name, path, deref
		case *ast.SelectorExpr:
			path = append([]string{x.Sel.Name}, path...)
			e = x.X
		case *ast.IndexExpr:
			e = x.X
		case *ast.StarExpr:
			deref = true
			e = x.X
		case *ast.ParenExpr:
			e = x.X
		case *ast.TypeAssertExpr:
			e = x.X
		case *ast.CallExpr:
			return "", nil, false // destination computed by a call: not a named root
		default:
			return "", nil, false
		}
	}
}

func c11ScanRepo(repo string) (writes []c11Write, reach map[string]bool, err error) {
	fset := token.NewFileSet()
	type fn struct {
		file string
		decl *ast.FuncDecl
	}
	var fns []fn
	globals := map[string]bool{}
	dirs := []string{"", "syntax", "helpers"}
	for _, d := range dirs {
		ents, e := os.ReadDir(filepath.Join(repo, d))
		if e != nil {
			return nil, nil, e
		}
		for _, ent := range ents {
			n := ent.Name()
			if !strings.HasSuffix(n, ".go") || strings.HasSuffix(n, "_test.go") || strings.HasPrefix(n, "verif_") {
				continue
			}
			f, e := parser.ParseFile(fset, filepath.Join(repo, d, n), nil, 0)
			if e != nil {
				return nil, nil, e
			}
			rel := filepath.ToSlash(filepath.Join(d, n))
			for _, decl := range f.Decls {
				switch x := decl.(type) {
				case *ast.FuncDecl:
					if x.Body != nil {
						fns = append(fns, fn{rel, x})
					}
				case *ast.GenDecl:
					if x.Tok == token.VAR {
						for _, sp := range x.Specs {
							for _, id := range sp.(*ast.ValueSpec).Names {
								globals[id.Name] = true
							}
						}
					}
				}
			}
		}
	}
	byName := map[string][]fn{}
	for _, f := range fns {
		byName[f.decl.Name.Name] = append(byName[f.decl.Name.Name], f)
	}
	// reachability by name: calls and plain references to function names
	reach = map[string]bool{}
	var work []string
	for _, r := range c11Roots {
		if !reach[r] {
			reach[r] = true
			work = append(work, r)
		}
	}
	for len(work) > 0 {
		n := work[len(work)-1]
		work = work[:len(work)-1]
		for _, f := range byName[n] {
			ast.Inspect(f.decl.Body, func(nd ast.Node) bool {
				var name string
				switch x := nd.(type) {
				case *ast.Ident:
					name = x.Name
				case *ast.SelectorExpr:
					name = x.Sel.Name
				}
				if name != "" && len(byName[name]) > 0 && !reach[name] {
					reach[name] = true
					work = append(work, name)
				}
				return true
			})
		}
	}
	for _, f := range fns {
		if !reach[f.decl.Name.Name] {
			continue
		}
		// names bound to shared types: receiver and parameters
		sharedVars := map[string]bool{}
		bind := func(fl *ast.FieldList) {
			if fl == nil {
				return
			}
			for _, fld := range fl.List {
				if c11SharedTypes[c11TypeString(fld.Type)] {
					for _, id := range fld.Names {
						sharedVars[id.Name] = true
					}
				}
			}
		}
		bind(f.decl.Recv)
		bind(f.decl.Type.Params)
		isShared := func(e ast.Expr) (string, bool) {
			root, path, deref := c11RootAndPath(e)
			if root == "" || root == "_" {
				return "", false
			}
			dst := c11TypeString(e)
			if globals[root] {
				return dst, true
			}
			if sharedVars[root] && (len(path) > 0 || deref) {
				return dst, true
			}
			for i, p := range path { // x.re.f = ..., x.code.F[i] = ...: through a pointer to shared state
				if c11SharedFields[p] && i < len(path)-1 {
					return dst, true
				}
			}
			return "", false
		}
		add := func(dst string) { writes = append(writes, c11Write{f.file, f.decl.Name.Name, dst}) }
		ast.Inspect(f.decl.Body, func(nd ast.Node) bool {
			switch x := nd.(type) {
			case *ast.AssignStmt:
				if x.Tok == token.DEFINE {
					return true
				}
				for _, l := range x.Lhs {
					if d, ok := isShared(l); ok {
						add(d)
					}
				}
			case *ast.IncDecStmt:
				if d, ok := isShared(x.X); ok {
					add(d)
				}
			case *ast.CallExpr:
				if id, ok := x.Fun.(*ast.Ident); ok && len(x.Args) > 0 && (id.Name == "delete" || id.Name == "copy" || id.Name == "clear") {
					if d, ok := isShared(x.Args[0]); ok {
						add(id.Name + "(" + d + ")")
					}
				}
			}
			return true
		})
	}
	return writes, reach, nil
}

func legC11WriteSet(c *Ctx) {
	c.Rule("every =, op=, ++/--, delete/copy/clear in a non-test, non-hook function of /repo (root, syntax/, helpers/) reachable by name from the public matching API, whose destination is rooted at a package-level variable, at a receiver/parameter of a shared type, or passes through Runner.re/.code or Match.regex; compared with the committed allow-list; non-trivial = one write site")
	repo := os.Getenv("C11_REPO")
	if repo == "" {
		repo = "/repo"
	}
	writes, reach, err := c11ScanRepo(repo)
	if err != nil {
		c.Add(&Case{Desc: "scan of /repo", Direct: "go/parser failed: " + err.Error()})
		return
	}
	seen := map[string]bool{}
	for _, w := range writes {
		key := fmt.Sprintf("%s:%s: %s", w.file, w.fn, w.dst)
		if seen[key] {
			continue
		}
		seen[key] = true
		cs := &Case{Desc: "match-time write to shared state: " + key, Nontrivial: true, Key: key, Class: "write"}
		if why, ok := c11AllowedWrites[key]; ok {
			cs.Desc += "  [allowed: " + why + "]"
		} else {
			cs.Direct = "not on the allow-list of harness/leg_c11.go: a function reachable from the matching API now mutates state shared between goroutines"
		}
		c.Add(cs)
	}
	var stale []string
	for k := range c11AllowedWrites {
		if !seen[k] {
			stale = append(stale, k)
		}
	}
	sort.Strings(stale)
	for _, k := range stale {
		c.Hist("allow-list entry no longer present: " + k)
	}
	// the scan must have seen the code it is about
	for _, must := range []string{"scan", "executeDefault", "findFirstCharDefault", "CharIn", "getRunner", "putRunner", "get", "add", "makeDeadline", "replaceRunnerLTR"} {
		c.Gate("c11-writeset: function not reached from the matching API: "+must, reach[must])
	}
	c.Gate("c11-writeset: the known writes were not found (scanner broken?)", seen["regexp.go:add: c.cache[key]"] && seen["fastclock.go:runClock: fast.running"])
}
