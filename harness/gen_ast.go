package main

// Weighted random AST generator shared by the tree-level legs (DESIGN §7).

type GenCfg struct {
	Lits         []rune // pattern literals
	MaxDepth     int
	NullableReps bool // allow quantified nullable bodies and directly nested quantifiers
	Look         bool
	Behind       bool
	Backref      bool
	Cond         bool
	Atomic       bool
	Named        bool
	OptGroup     bool
	Anchors      []string
	Classes      bool
	Shorthand    bool
	MaxRep       int
	Opts         Opts
}

type astGen struct {
	r      *Rng
	c      GenCfg
	groups int      // capturing groups opened so far (numbered)
	names  []string // named groups opened so far
}

func GenAst(r *Rng, c GenCfg) *Ast {
	g := &astGen{r: r, c: c}
	if c.MaxRep == 0 {
		g.c.MaxRep = 3
	}
	return g.alt(c.MaxDepth, c.Opts)
}

func (g *astGen) alt(d int, o Opts) *Ast {
	n := 1
	if d > 1 {
		switch g.r.Intn(10) {
		case 0, 1, 2:
			n = 2
		case 3:
			n = 3
		}
	}
	if n == 1 {
		return g.seq(d, o)
	}
	a := &Ast{Kind: AAlt}
	for i := 0; i < n; i++ {
		a.Kids = append(a.Kids, g.seq(d-1, o))
	}
	return a
}

func (g *astGen) seq(d int, o Opts) *Ast {
	n := 1 + g.r.Intn(3)
	if d <= 1 {
		n = 1 + g.r.Intn(2)
	}
	if n == 1 {
		return g.item(d, o)
	}
	a := &Ast{Kind: AConcat}
	for i := 0; i < n; i++ {
		a.Kids = append(a.Kids, g.item(d, o))
	}
	return a
}

func stripWrap(a *Ast) *Ast {
	// (?>x+)* is reduced like (?:x+)*: an atomic wrapper around a bare quantified item does not
	// stop the multiplication of directly nested repeaters
	for (a.Kind == ANonCap || a.Kind == AOptGroup || a.Kind == AAtomic) && len(a.Kids) == 1 {
		a = a.Kids[0]
	}
	return a
}

func (g *astGen) item(d int, o Opts) *Ast {
	a := g.atom(d, o)
	if !g.r.Chance(40) {
		return a
	}
	if !g.c.NullableReps {
		if a.minLen() == 0 || stripWrap(a).Kind == ARep {
			return a
		}
		// zero-width or unsupported bodies are not quantified in the C01 fragment
		k := stripWrap(a).Kind
		if k == AAnchor || k == ALook {
			return a
		}
	} else if a.Kind == AAnchor && g.r.Chance(70) {
		return a
	}
	rep := &Ast{Kind: ARep, Kids: []*Ast{a}, Lazy: g.r.Chance(30)}
	switch g.r.Intn(8) {
	case 0, 1:
		rep.Min, rep.Max = 0, -1
	case 2, 3:
		rep.Min, rep.Max = 1, -1
	case 4:
		rep.Min, rep.Max = 0, 1
	case 5:
		rep.Min = g.r.Intn(g.c.MaxRep)
		rep.Max = rep.Min + g.r.Intn(g.c.MaxRep)
		if rep.Max == 0 {
			rep.Max = 1
		}
	case 6:
		rep.Min = 1 + g.r.Intn(g.c.MaxRep)
		rep.Max = rep.Min
	default:
		rep.Min, rep.Max = 1+g.r.Intn(2), -1
	}
	return rep
}

func (g *astGen) class() *Ast {
	a := &Ast{Kind: AClass, Neg: g.r.Chance(25)}
	n := 1 + g.r.Intn(3)
	for i := 0; i < n; i++ {
		switch {
		case g.c.Shorthand && g.r.Chance(20):
			a.Items = append(a.Items, ClassItem{Short: Pick(g.r, []byte{'d', 'w', 's', 'D', 'W', 'S'})})
		case g.r.Chance(40):
			lo := Pick(g.r, g.c.Lits)
			hi := lo + rune(g.r.Intn(3))
			a.Items = append(a.Items, ClassItem{Lo: lo, Hi: hi})
		default:
			c := Pick(g.r, g.c.Lits)
			a.Items = append(a.Items, ClassItem{Lo: c, Hi: c})
		}
	}
	return a
}

func (g *astGen) atom(d int, o Opts) *Ast {
	if d <= 1 {
		switch g.r.Intn(10) {
		case 0:
			return &Ast{Kind: ADot}
		case 1, 2:
			if g.c.Classes {
				return g.class()
			}
		case 3:
			if len(g.c.Anchors) > 0 && g.r.Chance(50) {
				return &Ast{Kind: AAnchor, Name: Pick(g.r, g.c.Anchors)}
			}
		case 4:
			if b := g.backref(o); b != nil {
				return b
			}
		}
		return &Ast{Kind: ALit, Ch: Pick(g.r, g.c.Lits)}
	}
	switch g.r.Intn(20) {
	case 0, 1, 2, 3:
		// capturing group
		a := &Ast{Kind: AGroup}
		if g.c.Named && (o.N || g.r.Chance(25)) {
			a.Name = Pick(g.r, []string{"n", "m", "foo"})
			g.names = append(g.names, a.Name)
		} else if !o.N {
			g.groups++
		}
		a.Kids = []*Ast{g.alt(d-1, o)}
		return a
	case 4, 5:
		return &Ast{Kind: ANonCap, Kids: []*Ast{g.alt(d-1, o)}}
	case 6:
		if g.c.Look {
			a := &Ast{Kind: ALook, Neg: g.r.Chance(40), Behind: g.c.Behind && g.r.Chance(40)}
			a.Kids = []*Ast{g.alt(d-1, o)}
			return a
		}
	case 7:
		if g.c.Atomic {
			return &Ast{Kind: AAtomic, Kids: []*Ast{g.alt(d-1, o)}}
		}
	case 8:
		if g.c.OptGroup {
			a := &Ast{Kind: AOptGroup}
			fl := []string{"i", "m", "s", "n"}
			for _, f := range fl {
				switch g.r.Intn(4) {
				case 0:
					a.On += f
				case 1:
					a.Off += f
				}
			}
			if a.On == "" && a.Off == "" {
				a.On = "i"
			}
			a.Kids = []*Ast{g.alt(d-1, o.apply(a.On, a.Off))}
			return a
		}
	case 9:
		if g.c.Cond {
			if g.r.Bool() && (g.groups > 0 || len(g.names) > 0) {
				a := &Ast{Kind: ACondRef}
				if g.groups > 0 && !o.N {
					a.Ref = 1 + g.r.Intn(g.groups)
				} else if len(g.names) > 0 {
					a.Name = Pick(g.r, g.names)
				} else {
					break
				}
				a.Kids = []*Ast{g.seq(d-1, o)}
				if g.r.Chance(70) {
					a.Kids = append(a.Kids, g.seq(d-1, o))
				}
				return a
			}
			if g.c.Look {
				look := &Ast{Kind: ALook, Neg: g.r.Chance(30), Behind: g.c.Behind && g.r.Chance(30)}
				look.Kids = []*Ast{g.seq(d-1, o)}
				a := &Ast{Kind: ACondExpr, Kids: []*Ast{look, g.seq(d-1, o)}}
				if g.r.Chance(70) {
					a.Kids = append(a.Kids, g.seq(d-1, o))
				}
				return a
			}
		}
	case 10:
		if b := g.backref(o); b != nil {
			return b
		}
	}
	return g.atom(1, o)
}

func (g *astGen) backref(o Opts) *Ast {
	if !g.c.Backref {
		return nil
	}
	if g.groups > 0 && !o.N && g.r.Chance(70) {
		return &Ast{Kind: ABackref, Ref: 1 + g.r.Intn(g.groups)}
	}
	if len(g.names) > 0 {
		return &Ast{Kind: ABackref, Name: Pick(g.r, g.names)}
	}
	return nil
}

// allStrings enumerates every string of length <= maxLen over alpha (in length-lexicographic order).
func allStrings(alpha []rune, maxLen int, f func([]rune)) {
	cur := make([]rune, 0, maxLen)
	var rec func(n int)
	rec = func(n int) {
		if len(cur) == n {
			out := make([]rune, n)
			copy(out, cur)
			f(out)
			return
		}
		for _, c := range alpha {
			cur = append(cur, c)
			rec(n)
			cur = cur[:len(cur)-1]
		}
	}
	for n := 0; n <= maxLen; n++ {
		rec(n)
	}
}

func randString(r *Rng, alpha []rune, maxLen int) []rune {
	n := r.Intn(maxLen + 1)
	out := make([]rune, n)
	for i := range out {
		out[i] = Pick(r, alpha)
	}
	return out
}
