package main

// C17 — group numbers and names form one consistent map.
//
// Legs:
//   c17-maps    generated token lists (wild: every token kind incl. conditionals, lookarounds, inline
//               options, comments, malformed nesting) printed as patterns x 4 modes; the real
//               syntax.Parse / syntax.Write / Regexp / Match / NewReplacerData outputs are compared with
//               Model/GroupMap.v (legs 1701, 1702) and the API routes are cross-checked (Direct).
//   c17-direct  linear token lists in which every group owns a distinct letter: which TEXT each route
//               (Groups, GroupByName, GroupByNumber, \N, \k<name>, (?(N)..), $N, ${name}) picks.

import (
	"errors"
	"fmt"
	"sort"
	"strconv"
	"strings"
	"time"

	"github.com/dlclark/regexp2/v2"
	"github.com/dlclark/regexp2/v2/syntax"
)

func init() {
	registerLeg("c17-maps", "C17", legC17Maps)
	registerLeg("c17-direct", "C17", legC17Direct)
}

// ---------- tokens (Model/Options.v gtok) ----------

const (
	tLit = iota
	tOpen
	tNamed
	tNumbered
	tGroup
	tOptGroup
	tOptSet
	tClose
	tCondHead
	tCondNum
	tCondName
	tBackNum
	tBackName
	tComment
	tHash
	tNewline
)

type gTok struct {
	Tag    int
	N      int64   // number, literal code, group kind
	S      string  // name
	Cs     []int64 // option characters: -1 '-', -2 '+', otherwise the option bit
	Angled bool
	Sp     int    // spelling variant (printer only)
	Txt    string // comment text (printer only)
}

func encName(s string) []int64 { return encRunes([]rune(s)) }

func encToks(ts []gTok) []int64 {
	out := []int64{int64(len(ts))}
	for _, t := range ts {
		out = append(out, int64(t.Tag))
		switch t.Tag {
		case tLit, tNumbered, tGroup, tCondNum:
			out = append(out, t.N)
		case tNamed, tCondName, tBackName:
			out = append(out, encName(t.S)...)
		case tOptGroup, tOptSet:
			out = append(out, int64(len(t.Cs)))
			out = append(out, t.Cs...)
		case tBackNum:
			out = append(out, b2i(t.Angled), t.N)
		}
	}
	return out
}

type gMode struct {
	Name string
	MCO  bool
	Opts syntax.RegexOptions
}

var gModes = []gMode{
	{"default", false, 0},
	{"mco", true, 0},
	{"ecma", false, syntax.ECMAScript},
	{"re2", false, syntax.RE2},
}

func (m gMode) compileOpts() []regexp2.CompileOption {
	o := []regexp2.CompileOption{regexp2.RegexOptions(m.Opts)}
	if m.MCO {
		o = append(o, regexp2.OptionMaintainCaptureOrder())
	}
	return o
}
func (m gMode) ecma() bool { return m.Opts&syntax.ECMAScript != 0 }

// ordered: capture numbers follow pattern order (parser.go:162)
func (m gMode) ordered() bool { return m.MCO || m.Opts&(syntax.ECMAScript|syntax.RE2) != 0 }

// spellings of a literal token; none starts with a digit (a back-reference may precede it) and
// the ones from index gLitNonWord on do not start with a word character.
var gLits = []string{"a", "b", "c", "x*", "y+?", "é", `\(`, `\)`, "[(]", "[)]", "[^()]", ".", `\b`, `\#`, "[#]", " ", `\ `, "$", "^", `\[`, `[\]()]`, `\\`, `\.`, `\n`, "[(?<n>]", `\(\?<q>`}

const gLitNonWord = 6
const gLitBar = 1000 // "|"

func litText(c int64) string {
	if c == gLitBar {
		return "|"
	}
	if c >= 2000 { // a plain rune
		return string(rune(c - 2000))
	}
	return gLits[int(c)%len(gLits)]
}

var optLetters = map[int64]string{1: "i", 2: "m", 4: "n", 16: "s", 32: "x", 1024: "u"}

func optString(cs []int64, sp int) string {
	var sb strings.Builder
	for i, c := range cs {
		switch c {
		case -1:
			sb.WriteByte('-')
		case -2:
			sb.WriteByte('+')
		default:
			l := optLetters[c]
			if (sp>>uint(i%8))&1 == 1 {
				l = strings.ToUpper(l)
			}
			sb.WriteString(l)
		}
	}
	return sb.String()
}

func printToks(ts []gTok, m gMode) string {
	var sb strings.Builder
	for _, t := range ts {
		switch t.Tag {
		case tLit:
			sb.WriteString(litText(t.N))
		case tOpen:
			sb.WriteString("(")
		case tNamed, tNumbered:
			s := t.S
			if t.Tag == tNumbered {
				s = strconv.FormatInt(t.N, 10)
			}
			switch {
			case t.Sp%3 == 1 && !m.ecma():
				sb.WriteString("(?'" + s + "'")
			case t.Sp%3 == 2 && m.Opts&syntax.RE2 != 0 && t.Tag == tNamed:
				sb.WriteString("(?P<" + s + ">")
			default:
				sb.WriteString("(?<" + s + ">")
			}
		case tGroup:
			sb.WriteString([]string{"(?:", "(?>", "(?=", "(?!", "(?<=", "(?<!"}[t.N])
		case tOptGroup:
			sb.WriteString("(?" + optString(t.Cs, t.Sp) + ":")
		case tOptSet:
			sb.WriteString("(?" + optString(t.Cs, t.Sp) + ")")
		case tClose:
			sb.WriteString(")")
		case tCondHead:
			sb.WriteString("(?")
		case tCondNum:
			sb.WriteString("(?(" + strconv.FormatInt(t.N, 10) + ")")
		case tCondName:
			sb.WriteString("(?(" + t.S + ")")
		case tBackNum:
			n := strconv.FormatInt(t.N, 10)
			if !t.Angled {
				sb.WriteString(`\` + n)
			} else if m.ecma() {
				sb.WriteString(`\k<` + n + ">")
			} else {
				sb.WriteString([]string{`\k<` + n + ">", `\<` + n + ">", `\k'` + n + "'", `\'` + n + "'"}[t.Sp%4])
			}
		case tBackName:
			switch {
			case m.ecma():
				sb.WriteString(`\k<` + t.S + ">")
			case t.Sp%5 == 4 && m.Opts&syntax.RE2 != 0:
				sb.WriteString("(?P=" + t.S + ")")
			default:
				sb.WriteString([]string{`\k<` + t.S + ">", `\<` + t.S + ">", `\k'` + t.S + "'", `\'` + t.S + "'"}[t.Sp%4])
			}
		case tComment:
			sb.WriteString("(?#" + t.Txt + ")")
		case tHash:
			sb.WriteString("#")
		case tNewline:
			sb.WriteString("\n")
		}
	}
	return sb.String()
}

// ---------- error codes (Model/GroupMap.v) ----------

var c17ErrCodes = map[syntax.ErrorCode]int64{
	syntax.ErrUnexpectedParen:            10,
	syntax.ErrMissingParen:               11,
	syntax.ErrUnrecognizedGrouping:       12,
	syntax.ErrInvalidECMAGroupName:       13,
	syntax.ErrCapNumNotZero:              14,
	syntax.ErrUndefinedBackRef:           15,
	syntax.ErrUndefinedNameRef:           16,
	syntax.ErrAlternationCantCapture:     17,
	syntax.ErrAlternationCantHaveComment: 18,
	syntax.ErrUndefinedReference:         19,
	syntax.ErrDuplicateGroupName:         20,
	syntax.ErrCaptureGroupOutOfRange:     21,
	syntax.ErrMissingRepeatArgument:      22,
}

func c17ErrCode(err error) int64 {
	var se *syntax.Error
	if errors.As(err, &se) {
		if c, ok := c17ErrCodes[se.Code]; ok {
			return c
		}
	}
	return 99
}

// ---------- generator: wild token lists ----------

var gNamePool = []string{"n", "x", "y1", "_z", "N", "ab", "a", "k", "long_name_7", "é"}
var gNumPool = []int64{1, 2, 3, 5, 7, 10, 12, 77, 2, 3, 1} // no multi-digit number starting with 8 or 9: "\\99" is no octal escape

type gGen struct {
	r        *Rng
	names    []string
	nums     []int64
	hasCond  bool
	hasHash  bool
	hasOptN  bool
	hasOptX  bool
	hasDup   bool
	nameSeen map[string]bool
	// the group being generated sits directly inside an alternation construct
	parentCond bool
}

func (g *gGen) pickName() string {
	s := Pick(g.r, gNamePool)
	if g.nameSeen[s] {
		g.hasDup = true
	}
	g.nameSeen[s] = true
	g.names = append(g.names, s)
	return s
}
func (g *gGen) refName() string {
	if len(g.names) > 0 && g.r.Chance(85) {
		return Pick(g.r, g.names)
	}
	return Pick(g.r, gNamePool)
}
func (g *gGen) pickNum() int64 {
	n := Pick(g.r, gNumPool)
	if g.r.Chance(2) {
		n = 2147483647
	}
	g.nums = append(g.nums, n)
	return n
}
func (g *gGen) refNum() int64 {
	if len(g.nums) > 0 && g.r.Chance(50) {
		return Pick(g.r, g.nums)
	}
	if g.r.Chance(75) {
		return 1
	}
	return int64(1 + g.r.Intn(4))
}

func (g *gGen) optChars() []int64 {
	var cs []int64
	n := 1 + g.r.Intn(3)
	bits := []int64{4, 4, 32, 32, 1, 2, 16}
	for i := 0; i < n; i++ {
		switch g.r.Intn(6) {
		case 0:
			cs = append(cs, -1)
		case 1:
			if g.r.Chance(30) {
				cs = append(cs, -2)
			} else {
				cs = append(cs, -1)
			}
		default:
		}
		b := Pick(g.r, bits)
		if b == 4 {
			g.hasOptN = true
		}
		if b == 32 {
			g.hasOptX = true
		}
		cs = append(cs, b)
	}
	return cs
}

func (g *gGen) lit(nonWord bool) gTok {
	if nonWord {
		return gTok{Tag: tLit, N: int64(gLitNonWord + g.r.Intn(len(gLits)-gLitNonWord))}
	}
	return gTok{Tag: tLit, N: int64(g.r.Intn(len(gLits)))}
}

// seq generates a balanced sequence; inCond: directly inside an alternation construct (at most one '|')
func (g *gGen) seq(depth, budget int, inCond bool) []gTok {
	return g.seqB(depth, budget, inCond, false)
}

func (g *gGen) seqB(depth, budget int, inCond, noBar bool) []gTok {
	var out []gTok
	bars := 0
	if noBar {
		inCond, bars = true, 1
	}
	n := 1 + g.r.Intn(budget)
	for i := 0; i < n; i++ {
		switch k := g.r.Intn(100); {
		case k < 30:
			out = append(out, g.lit(false))
		case k < 36:
			if !inCond || bars == 0 {
				bars++
				out = append(out, gTok{Tag: tLit, N: gLitBar})
			}
		case k < 76 && depth < 4:
			g.parentCond = inCond
			out = append(out, g.group(depth)...)
		case k < 84:
			if inCond && !g.r.Chance(10) {
				out = append(out, g.lit(false)) // the real parser rejects option constructs directly inside (?( ) ... )
			} else {
				out = append(out, gTok{Tag: tOptSet, Cs: g.optChars(), Sp: g.r.Intn(256)})
			}
		case k < 88:
			if g.r.Bool() || (len(g.names) == 0 && !g.r.Chance(10)) {
				out = append(out, gTok{Tag: tBackNum, N: g.refNum(), Angled: g.r.Bool(), Sp: g.r.Intn(8)})
			} else {
				out = append(out, gTok{Tag: tBackName, S: g.refName(), Sp: g.r.Intn(10)})
			}
		case k < 91:
			out = append(out, gTok{Tag: tComment, Txt: Pick(g.r, []string{"", "c", "(", "((?<q>", "#", "x(y"})})
		case k < 96:
			// "#" ... "\n": a comment when x is on, pattern text otherwise
			g.hasHash = true
			out = append(out, gTok{Tag: tHash})
			if g.r.Chance(80) {
				out = append(out, g.seqB(depth+1, 2, false, inCond)...) // balanced: valid either way
			} else {
				out = append(out, Pick(g.r, [][]gTok{{{Tag: tOpen}}, {{Tag: tClose}}, {{Tag: tNamed, S: "hq"}}, {{Tag: tNumbered, N: 9}}, {{Tag: tLit, N: 0}}})...)
			}
			out = append(out, gTok{Tag: tNewline})
		default:
			out = append(out, g.lit(false))
		}
	}
	return out
}

func (g *gGen) group(depth int) []gTok {
	var open []gTok
	inCond := false
	switch k := g.r.Intn(100); {
	case k < 28:
		open = []gTok{{Tag: tOpen}}
	case k < 48:
		open = []gTok{{Tag: tNamed, S: g.pickName(), Sp: g.r.Intn(6)}}
	case k < 60:
		open = []gTok{{Tag: tNumbered, N: g.pickNum(), Sp: g.r.Intn(6)}}
	case k < 72:
		open = []gTok{{Tag: tGroup, N: int64(g.r.Intn(6))}}
	case k < 84:
		if g.parentCond && !g.r.Chance(10) {
			open = []gTok{{Tag: tGroup, N: 0}}
		} else {
			open = []gTok{{Tag: tOptGroup, Cs: g.optChars(), Sp: g.r.Intn(256)}}
		}
	case k < 92:
		// expression condition: "(?" + condition group + ")" ...
		g.hasCond = true
		inCond = true
		open = []gTok{{Tag: tCondHead}}
		switch c := g.r.Intn(100); {
		case c < 45:
			open = append(open, gTok{Tag: tOpen}, g.lit(true))
			open = append(open, g.seq(depth+2, 2, false)...)
		case c < 85:
			open = append(open, gTok{Tag: tGroup, N: int64(g.r.Intn(6))})
			open = append(open, g.seq(depth+2, 2, false)...)
		case c < 90:
			open = append(open, gTok{Tag: tNamed, S: g.pickName(), Sp: 0}, g.lit(false))
		case c < 94:
			open = append(open, gTok{Tag: tOptGroup, Cs: g.optChars()}, g.lit(false))
		case c < 97:
			open = append(open, gTok{Tag: tCondNum, N: g.refNum()}, g.lit(false))
		default:
			open = append(open, gTok{Tag: tComment, Txt: "c"}, gTok{Tag: tOpen}, g.lit(true))
		}
		open = append(open, gTok{Tag: tClose})
	case k < 96:
		g.hasCond = true
		inCond = true
		open = []gTok{{Tag: tCondNum, N: g.refNum()}}
	default:
		g.hasCond = true
		inCond = true
		open = []gTok{{Tag: tCondName, S: g.refName()}}
	}
	body := g.seq(depth+1, 3, inCond)
	return append(append(open, body...), gTok{Tag: tClose})
}

func (g *gGen) wild() []gTok {
	ts := g.seq(0, 5, false)
	// small damage: unbalanced / misplaced tokens
	if g.r.Chance(6) && len(ts) > 0 {
		i := g.r.Intn(len(ts))
		switch g.r.Intn(3) {
		case 0:
			ts = append(ts[:i:i], ts[i+1:]...)
		case 1:
			ts = append(ts[:i:i], append([]gTok{{Tag: tClose}}, ts[i:]...)...)
		default:
			ts = append(ts[:i:i], append([]gTok{{Tag: tOpen}}, ts[i:]...)...)
		}
	}
	ts = c17Printable(ts)
	// the empty alternative makes the pattern match (some) input whatever the groups do
	return append(ts, gTok{Tag: tLit, N: gLitBar})
}

// c17Printable repairs sequences the printer cannot spell (see the lexical conventions in Model/Options.v)
func c17Printable(ts []gTok) []gTok {
	var out []gTok
	for i := 0; i < len(ts); i++ {
		t := ts[i]
		if t.Tag == tCondHead {
			ok := false
			if i+1 < len(ts) {
				switch ts[i+1].Tag {
				case tOpen, tGroup, tNamed, tNumbered, tOptGroup, tOptSet, tCondHead, tCondNum, tCondName, tComment:
					ok = true
				}
			}
			if !ok {
				continue // drop a head that lost its condition
			}
			if i+1 < len(ts) && ts[i+1].Tag == tNamed {
				ts[i+1].Sp = 0 // "(?(?<" (the RE2 spelling (?P< is not rejected by the real parser there)
			}
			// first literal of "(?(" + lit must not be a word character (it would be read as a group reference)
			if i+2 < len(ts) && ts[i+1].Tag == tOpen && ts[i+2].Tag == tLit && (ts[i+2].N < gLitNonWord || ts[i+2].N >= gLitBar) {
				ts[i+2].N = gLitNonWord
			}
		}
		out = append(out, t)
	}
	return out
}

func hasTag(ts []gTok, tag int) bool {
	for _, t := range ts {
		if t.Tag == tag {
			return true
		}
	}
	return false
}

// for MaintainCaptureOrder / ECMAScript most explicit numbers are rewritten (known finding / always an error there)
func dropNumbered(r *Rng, ts []gTok) []gTok {
	out := append([]gTok(nil), ts...)
	for i, t := range out {
		if t.Tag == tNumbered {
			if r.Bool() {
				out[i] = gTok{Tag: tOpen}
			} else {
				out[i] = gTok{Tag: tNamed, S: "g" + strconv.FormatInt(t.N, 10), Sp: t.Sp}
			}
		}
	}
	return out
}

// ---------- implementation side ----------

func encNames(ss []string) []int64 {
	out := []int64{int64(len(ss))}
	for _, s := range ss {
		out = append(out, encName(s)...)
	}
	return out
}
func c17EncInts(xs []int) []int64 {
	out := []int64{int64(len(xs))}
	for _, x := range xs {
		out = append(out, int64(x))
	}
	return out
}
func encOptInts(xs []int) []int64 {
	if xs == nil {
		return []int64{-1}
	}
	return append([]int64{1}, c17EncInts(xs)...)
}

// the Capture / Ref / BackRefCond nodes in pattern order (children of right-to-left concatenations were reversed by the parser)
func walkItems(n *syntax.RegexNode, root bool, out *[]int64) {
	if n == nil {
		return
	}
	switch n.T {
	case syntax.NtCapture:
		if !root {
			*out = append(*out, 1, int64(n.M))
		}
	case syntax.NtRef:
		*out = append(*out, 2, int64(n.M))
	case syntax.NtBackRefCond:
		*out = append(*out, 3, int64(n.M))
	}
	if n.T == syntax.NtConcatenate && n.Options&syntax.RightToLeft != 0 {
		for i := len(n.Children) - 1; i >= 0; i-- {
			walkItems(n.Children[i], false, out)
		}
		return
	}
	for _, ch := range n.Children {
		walkItems(ch, false, out)
	}
}

func dollarSlot(rep string, code *syntax.Code, capnames map[string]int, o syntax.RegexOptions) (v int64, err error) {
	defer func() {
		if p := recover(); p != nil {
			err = fmt.Errorf("panic: %v", p)
		}
	}()
	rd, e := syntax.NewReplacerData(rep, code.Caps, code.Capsize, capnames, o)
	if e != nil {
		return 0, e
	}
	if len(rd.Rules) == 1 && rd.Rules[0] < 0 {
		return int64(-5 - rd.Rules[0]), nil
	}
	return -1, nil
}

type c17Impl struct {
	items   []int64
	static  []int64
	dynamic []int64 // nil: no match object could be obtained
	re      *regexp2.Regexp
	m       *regexp2.Match
	err     error
	crash   string
}

func lexicalName(s string) bool {
	if s == "" || (s[0] >= '0' && s[0] <= '9') {
		return false
	}
	for _, r := range s {
		if !syntax.IsWordChar(r) {
			return false
		}
	}
	return true
}

func c17RunImpl(pat string, m gMode, numKeys []int64, nameKeys []string, dollarKeys []string, inputs []string, imode int) (res c17Impl) {
	defer func() {
		if p := recover(); p != nil {
			res.crash = fmt.Sprint(p)
		}
	}()
	tree, err := syntax.Parse(pat, syntax.ParseOptions{RegexOptions: m.Opts, MaintainCaptureOrder: m.MCO})
	if err != nil {
		res.err = err
		res.static = []int64{1, c17ErrCode(err)}
		return
	}
	var keys []int
	for k := range tree.Caps {
		keys = append(keys, k)
	}
	sort.Ints(keys)
	out := []int64{0}
	out = append(out, c17EncInts(keys)...)
	out = append(out, encOptInts(tree.Capnumlist)...)
	out = append(out, int64(tree.Captop))
	if tree.Capnames == nil {
		out = append(out, -1)
	} else {
		out = append(out, int64(len(tree.Capnames)))
	}
	if tree.Caplist == nil {
		out = append(out, -1)
	} else {
		out = append(out, 1)
		out = append(out, encNames(tree.Caplist)...)
	}
	var items []int64
	walkItems(tree.Root, true, &items)
	capnames := tree.Capnames
	code, err := syntax.Write(tree)
	if err != nil {
		res.err = err
		res.static = []int64{1, 98}
		return
	}
	if code.Caps == nil {
		out = append(out, -1)
	} else {
		var ks []int
		for k := range code.Caps {
			ks = append(ks, k)
		}
		sort.Ints(ks)
		out = append(out, 1, int64(len(ks)))
		for _, k := range ks {
			out = append(out, int64(k), int64(code.Caps[k]))
		}
	}
	out = append(out, int64(code.Capsize))
	re, err := regexp2.Compile(pat, m.compileOpts()...)
	if err != nil {
		res.err = err
		res.static = []int64{1, 97}
		return
	}
	re.MatchTimeout = 2 * time.Second
	res.re = re
	out = append(out, encNames(re.GetGroupNames())...)
	out = append(out, 0)
	out = append(out, c17EncInts(re.GetGroupNumbers())...)
	for _, k := range numKeys {
		out = append(out, encName(re.GroupNameFromNumber(int(k)))...)
		v, e := dollarSlot("${"+strconv.FormatInt(k, 10)+"}", code, capnames, m.Opts)
		if e != nil {
			v = -98
		}
		out = append(out, v)
	}
	for _, s := range nameKeys {
		out = append(out, int64(re.GroupNumberFromName(s)))
	}
	for _, s := range dollarKeys {
		v, e := dollarSlot("${"+s+"}", code, capnames, m.Opts)
		if e != nil {
			v = -98
		}
		out = append(out, v)
	}
	res.items = items
	if imode == 1 {
		out = append(out, items...)
	} else if imode == 2 {
		out = append(out, 1)
	}
	res.static = out
	// a Match object for the Match-level lookups
	for _, in := range inputs {
		mt, e := re.FindStringMatch(in)
		if e == nil && mt != nil {
			res.m = mt
			break
		}
	}
	if res.m != nil {
		mt := res.m
		var names []string
		for _, g := range mt.Groups() {
			names = append(names, g.Name)
		}
		d := []int64{0}
		d = append(d, encNames(names)...)
		for _, k := range numKeys {
			d = append(d, int64(mt.VerifSlotOf(mt.GroupByNumber(int(k)))))
		}
		for _, s := range nameKeys {
			d = append(d, int64(mt.VerifSlotOf(mt.GroupByName(s))))
		}
		res.dynamic = d
	}
	return
}

// c17Cross: the API routes must agree with each other (no model involved).
// lenient: MaintainCaptureOrder with digit names (known finding) is reported under its guard by the caller.
func c17Cross(re *regexp2.Regexp, mt *regexp2.Match, ecma bool) string {
	names := re.GetGroupNames()
	nums := re.GetGroupNumbers()
	if len(names) != len(nums) {
		return fmt.Sprintf("GetGroupNames has %d entries, GetGroupNumbers %d", len(names), len(nums))
	}
	for i, k := range nums {
		if i > 0 && nums[i-1] >= k {
			return fmt.Sprintf("GetGroupNumbers not increasing: %v", nums)
		}
		nm := re.GroupNameFromNumber(k)
		if nm != names[i] {
			return fmt.Sprintf("GetGroupNames[%d]=%q but GroupNameFromNumber(%d)=%q", i, names[i], k, nm)
		}
		if !(ecma && nm == "") {
			if back := re.GroupNumberFromName(nm); back != k {
				return fmt.Sprintf("GroupNumberFromName(GroupNameFromNumber(%d)=%q) = %d", k, nm, back)
			}
		}
	}
	for _, s := range names {
		if ecma && s == "" {
			continue
		}
		k := re.GroupNumberFromName(s)
		if k < 0 {
			return fmt.Sprintf("listed name %q has no number", s)
		}
		if nm := re.GroupNameFromNumber(k); nm != s {
			return fmt.Sprintf("GroupNameFromNumber(GroupNumberFromName(%q)=%d) = %q", s, k, nm)
		}
	}
	if mt == nil {
		return ""
	}
	gs := mt.Groups()
	if len(gs) != len(nums) {
		return fmt.Sprintf("Groups() has %d entries, GetGroupNumbers %d", len(gs), len(nums))
	}
	for i, g := range gs {
		if g.Name != names[i] {
			return fmt.Sprintf("Groups()[%d].Name=%q, GetGroupNames()[%d]=%q", i, g.Name, i, names[i])
		}
		bn := mt.GroupByNumber(nums[i])
		if slot := mt.VerifSlotOf(bn); slot != i {
			return fmt.Sprintf("GroupByNumber(%d) is element %d of Groups(), want %d", nums[i], slot, i)
		}
		if bn.String() != g.String() || bn.Name != g.Name {
			return fmt.Sprintf("GroupByNumber(%d)=(%q,%q) but Groups()[%d]=(%q,%q)", nums[i], bn.Name, bn.String(), i, g.Name, g.String())
		}
		if !(ecma && g.Name == "") {
			byName := mt.GroupByName(g.Name)
			byNum := mt.GroupByNumber(re.GroupNumberFromName(g.Name))
			if byName != byNum {
				return fmt.Sprintf("GroupByName(%q) and GroupByNumber(GroupNumberFromName(%q)) differ", g.Name, g.Name)
			}
			if mt.VerifSlotOf(byName) != i {
				return fmt.Sprintf("GroupByName(%q) is element %d of Groups(), want %d", g.Name, mt.VerifSlotOf(byName), i)
			}
		}
	}
	// numbers that are not group numbers designate nothing
	isNum := map[int]bool{}
	for _, k := range nums {
		isNum[k] = true
	}
	for k := -1; k <= nums[len(nums)-1]+1 && k < 64; k++ {
		if !isNum[k] {
			if g := mt.GroupByNumber(k); g != nil {
				return fmt.Sprintf("GroupByNumber(%d) is not nil although %d is not a group number (%v)", k, k, nums)
			}
			if nm := re.GroupNameFromNumber(k); nm != "" {
				return fmt.Sprintf("GroupNameFromNumber(%d)=%q although %d is not a group number", k, nm, k)
			}
		}
	}
	return ""
}

func c17Keys(r *Rng, ts []gTok) (numKeys []int64, nameKeys, dollarKeys []string) {
	numKeys = []int64{-1, 0, 1, 2, 3, 4, 5, 6, 7, 10, 11, 12, 13, 77, 78, 99, 2147483647}
	nameKeys = []string{"", "0", "1", "2", "3", "5", "01", "00", "12", "99", "2147483647", "18446744073709551616", "18446744073709551617",
		"4294967297", "-1", "+1", " 1", "1 ", "n", "N", "zz", "g2", "é", "n\x00", "１"}
	for _, t := range ts {
		switch t.Tag {
		case tNamed, tCondName, tBackName:
			nameKeys = append(nameKeys, t.S)
		case tNumbered, tCondNum, tBackNum:
			numKeys = append(numKeys, t.N)
			if t.N < 2147483647 {
				numKeys = append(numKeys, t.N+1)
			}
			nameKeys = append(nameKeys, strconv.FormatInt(t.N, 10))
		}
	}
	for _, s := range nameKeys {
		if lexicalName(s) {
			dollarKeys = append(dollarKeys, s)
		}
	}
	return
}

func c17ModelIn(m gMode, ts []gTok, numKeys []int64, nameKeys, dollarKeys []string, imode int, items []int64) []int64 {
	in := []int64{b2i(m.MCO), int64(m.Opts)}
	in = append(in, encToks(ts)...)
	in = append(in, int64(len(numKeys)))
	in = append(in, numKeys...)
	in = append(in, encNames(nameKeys)...)
	in = append(in, encNames(dollarKeys)...)
	in = append(in, int64(imode), int64(len(items)/2))
	in = append(in, items...)
	return in
}

const c17GuardMCO = "mco_digit_names"

// the known finding, as narrowed by /repo 2b27550: with a digit NAME in a position-numbered mode the name of an
// unnamed group (its number) can also be the name of another group; nothing else is forgiven
func c17Guard(m gMode, ts []gTok, d string) string {
	if m.ordered() && !m.ecma() && hasTag(ts, tNumbered) && strings.HasPrefix(d, "GroupNumberFromName(GroupNameFromNumber(") {
		return c17GuardMCO
	}
	return ""
}

func c17Class(ts []gTok, m gMode, err error) string {
	cl := m.Name
	if err != nil {
		return cl + "/error"
	}
	return cl + "/ok"
}

func c17Emit(c *Ctx, kind string, ts []gTok, m gMode, inputs []string, imode int) (impl c17Impl, pat string) {
	pat = printToks(ts, m)
	numKeys, nameKeys, dollarKeys := c17Keys(c.Rng, ts)
	impl = c17RunImpl(pat, m, numKeys, nameKeys, dollarKeys, inputs, imode)
	desc := fmt.Sprintf("%s mode=%s pattern=%+q", kind, m.Name, pat)
	if impl.crash != "" {
		c.Add(&Case{Desc: desc, Direct: "panic: " + impl.crash, Class: m.Name + "/panic"})
		return
	}
	var se *syntax.Error
	if impl.err != nil && errors.As(impl.err, &se) && se.Code == syntax.ErrTooManyAlternates {
		// the number of '|' directly inside (?( ) ... ) is not modelled (damaged nesting can put a second one there)
		c.Hist(m.Name + "/unmodelled-error")
		return
	}
	in := c17ModelIn(m, ts, numKeys, nameKeys, dollarKeys, imode, impl.items)
	nontrivial := impl.err == nil && (hasTag(ts, tNamed) || hasTag(ts, tNumbered))
	c.Add(&Case{Desc: desc + " [Parse/Write/Regexp maps, lookups, $-references, node numbers]", ModelLeg: 1701, ModelIn: in, ImplOut: impl.static,
		Nontrivial: nontrivial, Key: m.Name + "|" + pat, Class: c17Class(ts, m, impl.err)})
	if impl.dynamic != nil {
		c.Add(&Case{Desc: desc + " [Match.Groups names, GroupByNumber, GroupByName]", ModelLeg: 1702, ModelIn: in, ImplOut: impl.dynamic, Class: m.Name + "/match"})
	}
	if impl.re != nil {
		d := ""
		func() {
			defer func() {
				if p := recover(); p != nil {
					d = fmt.Sprint("panic: ", p)
				}
			}()
			d = c17Cross(impl.re, impl.m, m.ecma())
		}()
		if d != "" {
			c.Add(&Case{Desc: desc, Direct: d, Guard: c17Guard(m, ts, d), Class: m.Name + "/cross"})
		}
	}
	return
}

func legC17Maps(c *Ctx) {
	c.Rule("random token lists (unnamed, named incl. duplicates, sparse explicit numbers, non-capturing/lookaround/atomic groups, (?n)/(?x)/(?-n) regions as option groups and option settings, " +
		"expression and reference conditionals, back-references, (?#) and x-mode # comments containing parentheses, 10% damaged nesting) printed with random spellings x {default, MaintainCaptureOrder, ECMAScript, RE2}; " +
		"non-trivial = compiles and has a named or explicitly numbered group (distinct by mode+pattern)")
	// constants the model relies on
	type bit struct {
		name string
		got  syntax.RegexOptions
		want int
	}
	for _, b := range []bit{{"IgnoreCase", syntax.IgnoreCase, 1}, {"Multiline", syntax.Multiline, 2}, {"ExplicitCapture", syntax.ExplicitCapture, 4}, {"Singleline", syntax.Singleline, 16},
		{"IgnorePatternWhitespace", syntax.IgnorePatternWhitespace, 32}, {"RightToLeft", syntax.RightToLeft, 64}, {"ECMAScript", syntax.ECMAScript, 256}, {"RE2", syntax.RE2, 512}, {"Unicode", syntax.Unicode, 1024}} {
		if int(b.got) != b.want {
			c.Add(&Case{Desc: fmt.Sprintf("constant syntax.%s = %d, model assumes %d", b.name, b.got, b.want), Direct: "option bit differs from Model/Options.v"})
		}
	}
	n := c.N(6000, 80000)
	var cond, hash, optn, optx, dup, sparse, errs, matched int
	for i := 0; i < n; i++ {
		g := &gGen{r: c.Rng, nameSeen: map[string]bool{}}
		base := g.wild()
		if g.hasCond {
			cond++
		}
		if g.hasHash {
			hash++
		}
		if g.hasOptN {
			optn++
		}
		if g.hasOptX {
			optx++
		}
		if g.hasDup {
			dup++
		}
		for _, m := range gModes {
			ts := base
			if m.ordered() && hasTag(ts, tNumbered) && c.Rng.Chance(40) {
				ts = dropNumbered(c.Rng, ts)
			}
			impl, _ := c17Emit(c, "wild", ts, m, []string{"", "abc", "aabbcc()#\n", "x"}, 2)
			if impl.err != nil {
				errs++
			}
			if impl.m != nil {
				matched++
			}
			if impl.re != nil {
				nums := impl.re.GetGroupNumbers()
				if nums[len(nums)-1] != len(nums)-1 {
					sparse++
				}
			}
		}
	}
	c.Gate("conditionals generated", cond > n/20)
	c.Gate("x-mode hash comments generated", hash > n/20)
	c.Gate("inline n option generated", optn > n/10)
	c.Gate("inline x option generated", optx > n/10)
	c.Gate("duplicate names generated", dup > n/50)
	c.Gate("sparse numbering generated", sparse > n/20)
	c.Gate("compile errors generated", errs > n/20 && errs < 2*n)
	c.Gate("match objects obtained", matched > n)
}

// ---------- linear patterns: every group owns a distinct letter ----------

type linNode struct {
	open   gTok
	kids   []*linNode
	letter rune // leaf when kids == nil && open.Tag == tLit
	absent bool // printed with a trailing '?', its letters are left out of the input
	setOpt *gTok
}

const linLetters = "abcdefghijklmnopqrstuvwxyz"

type linGen struct {
	r      *Rng
	next   int
	names  []string
	nums   []int64
	groups int
}

func (g *linGen) letter() *linNode {
	l := rune(linLetters[g.next%len(linLetters)])
	g.next++
	return &linNode{open: gTok{Tag: tLit, N: 2000 + int64(l)}, letter: l}
}

func (g *linGen) node(depth int) *linNode {
	if depth >= 3 || g.next > 18 || g.r.Chance(25) {
		if g.r.Chance(12) {
			bits := []int64{4}
			if g.r.Chance(30) {
				bits = []int64{4, 1}
			}
			cs := bits
			if g.r.Bool() {
				cs = append([]int64{-1}, bits...)
			}
			return &linNode{setOpt: &gTok{Tag: tOptSet, Cs: cs}}
		}
		return g.letter()
	}
	n := &linNode{}
	switch k := g.r.Intn(100); {
	case k < 35:
		n.open = gTok{Tag: tOpen}
	case k < 60:
		nm := Pick(g.r, []string{"n", "x", "y1", "_z", "N", "ab"})
		g.names = append(g.names, nm)
		n.open = gTok{Tag: tNamed, S: nm, Sp: g.r.Intn(6)}
	case k < 78:
		num := Pick(g.r, []int64{1, 2, 3, 5, 7, 10, 12, 40})
		g.nums = append(g.nums, num)
		n.open = gTok{Tag: tNumbered, N: num, Sp: g.r.Intn(6)}
	case k < 86:
		n.open = gTok{Tag: tGroup, N: 0}
	default:
		cs := []int64{4}
		if g.r.Bool() {
			cs = []int64{-1, 4}
		}
		n.open = gTok{Tag: tOptGroup, Cs: cs}
	}
	g.groups++
	n.absent = g.r.Chance(20)
	n.kids = append(n.kids, g.letter()) // the group's own letter comes first
	k := g.r.Intn(3)
	for i := 0; i < k; i++ {
		n.kids = append(n.kids, g.node(depth+1))
	}
	return n
}

func (n *linNode) flatten(ts *[]gTok, in *[]rune, absent bool) {
	if n.setOpt != nil {
		*ts = append(*ts, *n.setOpt)
		return
	}
	if n.kids == nil {
		*ts = append(*ts, n.open)
		if !absent {
			*in = append(*in, n.letter)
		}
		return
	}
	ab := absent || n.absent
	*ts = append(*ts, n.open)
	for _, k := range n.kids {
		k.flatten(ts, in, ab)
	}
	*ts = append(*ts, gTok{Tag: tClose})
	if n.absent {
		*ts = append(*ts, gTok{Tag: tLit, N: 2000 + '?'})
	}
}

func legC17Direct(c *Ctx) {
	c.Rule("linear token lists: nested unnamed / named / explicitly numbered / non-capturing / (?n:) (?-n:) groups and (?n) (?-n) settings, each group starting with its own letter, 20% of the groups optional and absent from the input; x 4 modes; " +
		"checked: model outputs as in c17-maps, and the text picked by Groups()[i], GroupByNumber, GroupByName, \\N, \\k<name>, (?(N)y|z), (?(name)y|z), ${N}, $N, ${name}; non-trivial = named or numbered group present (distinct by mode+pattern)")
	n := c.N(2500, 40000)
	var refChecks, condChecks, replChecks, absentSeen int
	for i := 0; i < n; i++ {
		g := &linGen{r: c.Rng}
		var base []gTok
		var in []rune
		top := 1 + c.Rng.Intn(4)
		for k := 0; k < top; k++ {
			g.node(0).flatten(&base, &in, false)
		}
		input := string(in)
		for _, m := range gModes {
			func() {
				ts := base
				if m.ordered() && hasTag(ts, tNumbered) && c.Rng.Chance(40) {
					ts = dropNumbered(c.Rng, ts)
				}
				defer func() {
					if p := recover(); p != nil {
						c.Add(&Case{Desc: fmt.Sprintf("linear mode=%s pattern=%+q input=%q", m.Name, printToks(ts, m), input), Direct: fmt.Sprint("panic: ", p), Class: m.Name + "/panic"})
					}
				}()
				anch := append([]gTok{{Tag: tLit, N: 2000 + '^'}}, ts...)
				impl, pat := c17Emit(c, "linear", anch, m, []string{input}, 1)
				if impl.re == nil {
					return
				}
				desc := fmt.Sprintf("linear mode=%s pattern=%+q input=%q", m.Name, pat, input)
				if impl.m == nil {
					c.Add(&Case{Desc: desc, Direct: "the pattern does not match the input built from its letters", Class: m.Name + "/nomatch"})
					return
				}
				mt := impl.m
				fail := func(d string) {
					c.Add(&Case{Desc: desc, Direct: d, Guard: c17Guard(m, ts, d), Class: m.Name + "/direct"})
				}
				nums := impl.re.GetGroupNumbers()
				names := impl.re.GetGroupNames()
				var d string
				for gi, k := range nums {
					grp := mt.GroupByNumber(k)
					if grp == nil {
						d = fmt.Sprintf("GroupByNumber(%d) is nil", k)
						break
					}
					val := grp.String()
					if len(grp.Captures) == 0 {
						absentSeen++
					}
					tail := "=" + val
					other := "=#"
					// \N and \k<name> pick the same text as GroupByNumber / GroupByName
					var refs []gTok
					if !m.ecma() { // in ECMAScript mode \k<...> is a reference only when the pattern has named groups
						refs = append(refs, gTok{Tag: tBackNum, N: int64(k), Angled: true, Sp: c.Rng.Intn(8)})
					}
					if k >= 1 {
						refs = append(refs, gTok{Tag: tBackNum, N: int64(k)})
					}
					if lexicalName(names[gi]) {
						if byName := mt.GroupByName(names[gi]); byName == nil || byName.String() != val {
							d = fmt.Sprintf("GroupByName(%q) and GroupByNumber(%d)=%q pick different text", names[gi], k, val)
							break
						}
						refs = append(refs, gTok{Tag: tBackName, S: names[gi], Sp: c.Rng.Intn(10)})
					}
					if len(grp.Captures) > 0 && k > 0 {
						for _, rf := range refs {
							p2 := printToks(append(append(append([]gTok(nil), anch...), gTok{Tag: tLit, N: 2000 + '='}, rf), gTok{Tag: tLit, N: 2000 + '!'}), m)
							re2, err := regexp2.Compile(p2, m.compileOpts()...)
							if err != nil {
								d = fmt.Sprintf("pattern with reference %+q does not compile: %v", p2, err)
								break
							}
							re2.MatchTimeout = 2 * time.Second
							ok1, _ := re2.MatchString(input + tail + "!")
							ok2, _ := re2.MatchString(input + other + "!")
							refChecks++
							if !ok1 || ok2 {
								d = fmt.Sprintf("reference in %+q does not designate the group GroupByNumber(%d)=%q (match with that text: %v, with other text: %v)", p2, k, val, ok1, ok2)
								break
							}
						}
						if d != "" {
							break
						}
					}
					// (?(N)y|z) / (?(name)y|z) test the same group
					if k > 0 {
						conds := []gTok{{Tag: tCondNum, N: int64(k)}}
						if lexicalName(names[gi]) {
							conds = append(conds, gTok{Tag: tCondName, S: names[gi]})
						}
						for _, cd := range conds {
							p2 := printToks(append(append([]gTok(nil), anch...), cd, gTok{Tag: tLit, N: 2000 + 'Y'}, gTok{Tag: tLit, N: gLitBar}, gTok{Tag: tLit, N: 2000 + 'Z'}, gTok{Tag: tClose}, gTok{Tag: tLit, N: 2000 + '!'}), m)
							re2, err := regexp2.Compile(p2, m.compileOpts()...)
							if err != nil {
								d = fmt.Sprintf("pattern with conditional %+q does not compile: %v", p2, err)
								break
							}
							re2.MatchTimeout = 2 * time.Second
							okY, _ := re2.MatchString(input + "Y!")
							okZ, _ := re2.MatchString(input + "Z!")
							condChecks++
							want := len(grp.Captures) > 0
							if okY != want || okZ == want {
								d = fmt.Sprintf("conditional in %+q: group %d participated=%v but yes-branch matched=%v, no-branch matched=%v", p2, k, want, okY, okZ)
								break
							}
						}
						if d != "" {
							break
						}
					}
					// ${N}, $N, ${name}
					// (in ECMAScript mode "$N" is the longest digit prefix that is a group number: for an existing k
					// followed by a non-digit that is k itself)
					reps := []string{"<${" + strconv.Itoa(k) + "}>", "<$" + strconv.Itoa(k) + ">"}
					if lexicalName(names[gi]) {
						reps = append(reps, "<${"+names[gi]+"}>")
					}
					for _, rp := range reps {
						got, err := impl.re.Replace(input, rp, -1, 1)
						replChecks++
						want := input[:mt.RuneIndex] + "<" + val + ">" + input[mt.RuneIndex+mt.RuneLength:]
						if err != nil || got != want {
							d = fmt.Sprintf("Replace(%q, %q) = %q (err %v), want %q (group %d = %q)", input, rp, got, err, want, k, val)
							break
						}
					}
					if d != "" {
						break
					}
				}
				if d != "" {
					fail(d)
				}
				// names / numbers that do not exist are not substituted
				unknown := []string{"<${nosuch}>", "<${77}>"}
				if !m.ecma() { // ECMAScript "$77" falls back to "$7" + "7"
					unknown = append(unknown, "<$77>")
				}
				for _, rp := range unknown {
					if got, err := impl.re.Replace(input, rp, -1, 1); err == nil {
						want := input[:mt.RuneIndex] + rp + input[mt.RuneIndex+mt.RuneLength:]
						if got != want {
							fail(fmt.Sprintf("Replace with unknown reference %q = %q, want it literal", rp, got))
						}
					}
				}
			}()
		}
	}
	// many groups: two-digit references $10.. in every mode, and the ECMAScript fallback "$1" + digit
	manyChecks, fallbackChecks := 0, 0
	for i := 0; i < c.N(40, 600); i++ {
		ng := 10 + c.Rng.Intn(6)
		named := c.Rng.Intn(ng) + 1
		var sb strings.Builder
		var in []rune
		for g := 1; g <= ng; g++ {
			ch := rune('a' + g - 1)
			if g == named && c.Rng.Chance(50) {
				fmt.Fprintf(&sb, "(?<last>%c)", ch)
			} else {
				fmt.Fprintf(&sb, "(%c)", ch)
			}
			in = append(in, ch)
		}
		pat, input := sb.String(), string(in)
		for _, m := range gModes {
			re, err := regexp2.Compile(pat, m.compileOpts()...)
			if err != nil {
				c.Add(&Case{Desc: fmt.Sprintf("many-groups mode=%s pattern=%q", m.Name, pat), Direct: "does not compile: " + err.Error(), Class: m.Name + "/many"})
				continue
			}
			re.MatchTimeout = 2 * time.Second
			mt, _ := re.FindStringMatch(input)
			if mt == nil {
				c.Add(&Case{Desc: fmt.Sprintf("many-groups mode=%s pattern=%q input=%q", m.Name, pat, input), Direct: "no match", Class: m.Name + "/many"})
				continue
			}
			exists := map[int]bool{}
			for _, k := range re.GetGroupNumbers() {
				exists[k] = true
			}
			var d string
			for _, k := range re.GetGroupNumbers() {
				val := mt.GroupByNumber(k).String()
				for _, rp := range []string{"<$" + strconv.Itoa(k) + ">", "<${" + strconv.Itoa(k) + "}>", "[$" + strconv.Itoa(k) + "]"} {
					got, err := re.Replace(input, rp, -1, 1)
					manyChecks++
					want := string(rp[0]) + val + string(rp[len(rp)-1])
					if err != nil || got != want {
						d = fmt.Sprintf("Replace(%q, %q) = %q (err %v), want %q (GroupByNumber(%d) = %q)", input, rp, got, err, want, k, val)
					}
				}
				// "$kd" where kd is not a group number: ECMAScript takes the longest existing prefix and keeps the rest
				// literally; the other modes leave the whole unknown reference literal
				for dgt := 0; dgt <= 9 && k > 0; dgt++ {
					kd := k*10 + dgt
					if exists[kd] {
						continue
					}
					rp := "<$" + strconv.Itoa(kd) + ">"
					got, err := re.Replace(input, rp, -1, 1)
					fallbackChecks++
					want := rp
					if m.ecma() {
						want = "<" + val + strconv.Itoa(dgt) + ">"
					}
					if err != nil || got != want {
						d = fmt.Sprintf("Replace(%q, %q) = %q (err %v), want %q (group %d exists, %d does not)", input, rp, got, err, want, k, kd)
					}
				}
			}
			cs := &Case{Desc: fmt.Sprintf("many-groups mode=%s pattern=%q input=%q", m.Name, pat, input), Direct: d, Class: m.Name + "/many", Nontrivial: true, Key: m.Name + pat}
			c.Add(cs)
		}
	}
	c.Gate("two-digit replacement references ran", manyChecks > 400)
	c.Gate("ECMAScript digit fallback ran", fallbackChecks > 400)
	c.Gate("back-reference checks ran", refChecks > n)
	c.Gate("conditional checks ran", condChecks > n)
	c.Gate("replacement checks ran", replChecks > n)
	c.Gate("non-participating groups seen", absentSeen > n/10)
}
