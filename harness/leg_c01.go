package main

import (
	"unicode"
	"fmt"
	"time"

	"github.com/dlclark/regexp2/v2"
	"github.com/dlclark/regexp2/v2/syntax"
)

func init() {
	registerLeg("c01-sem", "C01", func(c *Ctx) { legSem(c, false) })
	registerLeg("c15-sem", "C15", func(c *Ctx) { legSem(c, true) })
}

func toRegexOptions(o Opts) regexp2.RegexOptions { return regexp2.RegexOptions(o.bits()) }

// encMatch encodes an implementation result in the model's e_match format.
func encMatch(m *regexp2.Match, err error) []int64 {
	if err != nil {
		return []int64{1, 0}
	}
	if m == nil {
		return []int64{0, 0}
	}
	out := []int64{0, 1, int64(m.VerifTextpos())}
	gs := m.Groups()
	out = append(out, int64(len(gs)))
	for _, g := range gs {
		out = append(out, int64(len(g.Captures)))
		for _, cp := range g.Captures {
			out = append(out, int64(cp.RuneIndex), int64(cp.RuneLength))
		}
	}
	return out
}

func randOpts(r *Rng, rtl bool) Opts {
	o := Opts{RTL: rtl}
	if r.Chance(30) {
		o.I = true
	}
	if r.Chance(30) {
		o.M = true
	}
	if r.Chance(30) {
		o.S = true
	}
	if r.Chance(15) {
		o.N = true
	}
	if r.Chance(15) {
		o.X = true
	}
	if !rtl && r.Chance(15) {
		o.RE2 = true
	}
	return o
}

var litPool = [][]rune{{'a', 'b'}, {'a', 'b', 'c'}, {'a', 'B'}, {'a', 'b', '\n'}, {'x', 'é', 'y'}, {'a', 'b', ' '}, {'a', '́', 'b'}, {'a', '😀', 'b'}, {'a', 'b', '#'}}

func c01Cfg(r *Rng, o Opts, depth int) GenCfg {
	return GenCfg{Lits: Pick(r, litPool), MaxDepth: depth, NullableReps: false, Look: true, Behind: true, Backref: true,
		Cond: true, Atomic: true, Named: true, OptGroup: true, Anchors: []string{"^", "$", `\A`, `\z`, `\Z`, `\b`, `\B`},
		Classes: true, Shorthand: true, MaxRep: 3, Opts: o}
}

const semFuel = 4000

// legSem: Spec.find on the harness's own elaboration of the AST (and on regexp2's exported tree)
// against FindRunesMatchStartingAt, for every string up to a bound over the pattern alphabet and every start offset.
func legSem(c *Ctx, rtl bool) {
	c.Rule("random ASTs of the C01 fragment (depth<=4 quick/6 thorough; quantified bodies non-nullable, no directly nested quantifiers, no balancing) printed to pattern text x options from {i,m,s,n,x,RE2}" +
		map[bool]string{true: " + RightToLeft", false: ""}[rtl] +
		" x every string up to length 3 (quick; 4 thorough) over the pattern alphabet plus newline/foreign rune x every start offset, plus random longer strings; model A = Spec.find on the harness's own elaboration (never saw the parser), model B = Spec.find on regexp2's exported tree; non-trivial = the search finds a match (distinct by pattern,options,input,start)")
	nPat := c.N(250, 4000)
	maxLen := c.N(3, 4)
	depth := c.N(4, 6)
	modes := map[string]int{}
	corpus := semCorpus()
	// loops next to literals and to other loops, every flavour (the concatenation reducers merge, re-split and make
	// such neighbours atomic): a seed-dependent half of the family in the quick tier, all of it in the thorough tier
	for _, a := range adjacencyFamily() {
		if c.Thorough || c.Rng.Chance(50) {
			corpus = append(corpus, a)
		}
	}
	// literals longer than the 50 runes a search prefix may hold (the prefix is cut: to its head when scanning left to
	// right, to its tail when scanning right to left), with texts built around the literal itself
	special := map[*Ast][][]rune{}
	for _, n := range []int{49, 50, 51, 65, 120} {
		var ks []*Ast
		var text []rune
		for k := 0; k < n; k++ {
			ch := rune("abcab"[k%5])
			if k == n-1 {
				ch = 'd'
			}
			ks = append(ks, lit(ch))
			text = append(text, ch)
		}
		for _, a := range []*Ast{cat(ks...), cat(grp(cat(ks[:n/2]...)), cat(ks[n/2:]...))} {
			special[a] = [][]rune{text, append([]rune{'x'}, text...), append(append([]rune{}, text...), 'x', 'y'), text[1:], text[:n-1],
				append(append(append([]rune{}, text...), 'z'), text...), append(append([]rune{'a', 'b'}, text...), 'c')}
			corpus = append(corpus, a)
		}
	}
	for i := 0; i < nPat+len(corpus); i++ {
		o := randOpts(c.Rng, rtl)
		d := 2 + c.Rng.Intn(depth-1)
		var ast *Ast
		if i < len(corpus) {
			// deterministic corpus of past findings, under no option and under every single option
			ast = corpus[i]
			o = Opts{RTL: rtl}
		} else {
			ast = GenAst(c.Rng, c01Cfg(c.Rng, o, d))
		}
		pat := ast.Pattern(o, c.Rng)
		re, err := regexp2.Compile(pat, toRegexOptions(o))
		if err != nil {
			c.Add(&Case{Desc: fmt.Sprintf("pattern %q opts=%s", pat, o), Direct: "generated pattern of the documented syntax rejected by Compile: " + err.Error(), Class: "compile-error"})
			continue
		}
		re.MatchTimeout = 5 * time.Second
		c.Hist("programs")
		elab := Elab(ast, o)
		tree, perr := syntax.Parse(pat, syntax.ParseOptions{RegexOptions: syntax.RegexOptions(o.bits())})
		var real *TreeWire
		if perr == nil {
			real = ExportTree(tree, re.VerifCode())
		}
		alpha := ast.alphabet(o)
		alpha = append(alpha, '\n')
		if len(alpha) < 4 {
			alpha = append(alpha, 'Z')
		}
		if rtl && len(alpha) < 5 {
			alpha = append(alpha, 'é') // byte and rune offsets differ: the entry points' default start is the END of the text
		}
		if len(alpha) > 5 {
			alpha = alpha[:5]
		}
		var inputs [][]rune
		ml := maxLen
		directed := i < len(corpus)
		if directed {
			// the directed shapes get one more rune (a loop taken past its minimum and still a tail to match) over a
			// smaller alphabet (three of the pattern's letters, or two and the newline when it has an anchor), and
			// EVERY such string is run: nothing is sampled away
			ml = maxLen + 1
			hasAnchor := false
			ast.walk(func(n *Ast) {
				if n.Kind == AAnchor {
					hasAnchor = true
				}
			})
			var small []rune
			for _, ch := range ast.alphabet(o) {
				// (the alphabet lists both cases of every letter; without IgnoreCase the other case is just a foreign rune)
				if !o.I && unicode.IsUpper(ch) && containsRune(ast.alphabet(o), unicode.ToLower(ch)) && !astHasLit(ast, ch) {
					continue
				}
				small = append(small, ch)
			}
			if hasAnchor {
				if len(small) > 2 {
					small = small[:2]
				}
				small = append(small, '\n')
			} else if len(small) > 3 {
				small = small[:3]
			}
			for len(small) < 3 {
				small = append(small, rune('Z'-len(small)))
			}

			alpha = small
		}
		allStrings(alpha, ml, func(s []rune) { inputs = append(inputs, s) })
		if sp := special[ast]; sp != nil {
			inputs = sp
		}
		if rtl {
			// the shortest texts once more with a multi-byte rune in front and behind (byte and rune offsets differ: the
			// entry points' default start is the END of the text)
			for _, s := range inputs[:min(len(inputs), 30)] {
				inputs = append(inputs, append([]rune{'é'}, s...), append(append([]rune{}, s...), 'é'))
			}
		}
		for k := 0; k < 12; k++ {
			inputs = append(inputs, randString(c.Rng, alpha, 10))
		}
		// sample if the enumeration is large; the first strings (all of length <= 2) always stay
		budget := c.N(160, 600)
		k := 0
		for idx, in := range inputs {
			if !directed && idx > 40 && len(inputs) > budget && c.Rng.Intn(len(inputs)) >= budget {
				continue
			}
			for start := 0; start <= len(in); start++ {
				if len(in) > 5 && c.Rng.Chance(70) {
					continue
				}
				m, err, pan := safeFind(re, in, start)
				if pan != "" {
					c.Add(&Case{Desc: fmt.Sprintf("pattern %q opts=%s input %+q start=%d", pat, o, string(in), start), Direct: "FindRunesMatchStartingAt panicked: " + pan, Class: "panic"})
					continue
				}
				impl := encMatch(m, err)
				desc := fmt.Sprintf("pattern %q opts=%s input %+q start=%d -> %v", pat, o, string(in), start, impl)
				if rtl || k%2 == 0 {
					// the string entry point with the EXPLICIT start offset (in bytes) answers the same question, 0 included
					if ms, errs, pans := safeFindStringAt(re, string(in), len(string(in[:start]))); pans != "" {
						c.Add(&Case{Desc: desc, Direct: "FindStringMatchStartingAt panicked: " + pans, Class: "panic"})
					} else if es := encMatch(ms, errs); fmt.Sprint(es) != fmt.Sprint(impl) {
						c.Add(&Case{Desc: "[string entry, explicit start] " + desc, Direct: fmt.Sprintf("FindStringMatchStartingAt(text, %d) returns %v", len(string(in[:start])), es), Class: "string-entry"})
					}
				}
				if (start == 0 && !rtl) || (start == len(in) && rtl) {
					// the bool-only string entry point computes its own default start
					if ok, errb, panb := safeMatchString(re, string(in)); panb != "" {
						c.Add(&Case{Desc: desc, Direct: "MatchString panicked: " + panb, Class: "panic"})
					} else if errb == nil && err == nil && ok != (m != nil) {
						c.Add(&Case{Desc: "[MatchString] " + desc, Direct: fmt.Sprintf("MatchString on the same text returns %v", ok), Class: "string-entry"})
					}
					// the string entry point answers the same question (it runs the raw-string prefilter in front)
					if ms, errs, pans := safeFindString(re, string(in)); pans != "" {
						c.Add(&Case{Desc: desc, Direct: "FindStringMatch panicked: " + pans, Class: "panic"})
					} else if es := encMatch(ms, errs); fmt.Sprint(es) != fmt.Sprint(impl) {
						c.Add(&Case{Desc: "[string entry] " + desc, Direct: fmt.Sprintf("FindStringMatch on the same text returns %v", es), Class: "string-entry"})
					}
				}
				tail := []int64{b2i(rtl), int64(start), -1, semFuel}
				inA := append(append(encEnv(in, start, o, elab.Sets, elab.Slots), elab.Words...), tail...)
				c.Add(&Case{Desc: "[elab] " + desc, ModelLeg: 101, ModelIn: inA, ImplOut: impl, Nontrivial: m != nil,
					Key: fmt.Sprintf("%s|%s|%s|%d", pat, o, string(in), start), Class: fmt.Sprintf("match=%v", m != nil)})
				if real != nil && k%3 == 0 {
					inB := append(append(encEnv(in, start, o, real.Sets, real.Slots), real.Words...), tail...)
					c.Add(&Case{Desc: "[real-tree] " + desc, ModelLeg: 103, ModelIn: inB, ImplOut: impl, Class: "real-tree"})
				}
				k++
			}
		}
		ast.walk(func(n *Ast) { modes[fmt.Sprintf("kind%d", n.Kind)]++ })
	}
	for k, v := range modes {
		c.res.Histogram[k] = v
	}
	for k := ALit; k <= AOptGroup; k++ {
		c.Gate(fmt.Sprintf("AST kind %d generated", k), modes[fmt.Sprintf("kind%d", k)] > 0)
	}
}

func safeMatchString(re *regexp2.Regexp, in string) (ok bool, err error, pan string) {
	defer func() {
		if p := recover(); p != nil {
			pan = fmt.Sprint(p)
		}
	}()
	ok, err = re.MatchString(in)
	return
}

func safeFindStringAt(re *regexp2.Regexp, in string, at int) (m *regexp2.Match, err error, pan string) {
	defer func() {
		if p := recover(); p != nil {
			pan = fmt.Sprint(p)
		}
	}()
	m, err = re.FindStringMatchStartingAt(in, at)
	return
}

func safeFindString(re *regexp2.Regexp, in string) (m *regexp2.Match, err error, pan string) {
	defer func() {
		if p := recover(); p != nil {
			pan = fmt.Sprint(p)
		}
	}()
	m, err = re.FindStringMatch(in)
	return
}

func astHasLit(a *Ast, ch rune) bool {
	found := false
	a.walk(func(n *Ast) {
		if n.Kind == ALit && n.Ch == ch {
			found = true
		}
	})
	return found
}

// safeFind: the engine call under recover (a run-time fault of the engine is a reported violation, not a crash of the leg)
func safeFind(re *regexp2.Regexp, in []rune, start int) (m *regexp2.Match, err error, pan string) {
	defer func() {
		if p := recover(); p != nil {
			pan = fmt.Sprint(p)
		}
	}()
	m, err = re.FindRunesMatchStartingAt(in, start)
	return
}

func lit(c rune) *Ast            { return &Ast{Kind: ALit, Ch: c} }
func cat(k ...*Ast) *Ast         { return &Ast{Kind: AConcat, Kids: k} }
func alt(k ...*Ast) *Ast         { return &Ast{Kind: AAlt, Kids: k} }
func rep(a *Ast, mn, mx int, lazy bool) *Ast {
	return &Ast{Kind: ARep, Kids: []*Ast{a}, Min: mn, Max: mx, Lazy: lazy}
}
func grp(a *Ast) *Ast { return &Ast{Kind: AGroup, Kids: []*Ast{a}} }

// adjacencyFamily: X-loop F and F X-loop for every loop flavour (greedy, lazy, explicitly atomic; *, +, ?, {1,2})
// over a character and a class, F a literal run, a loop or a class sharing the loop's character
func adjacencyFamily() []*Ast {
	cls := func() *Ast { return &Ast{Kind: AClass, Items: []ClassItem{{Lo: 'a', Hi: 'b'}}} }
	atomic := func(a *Ast) *Ast { return &Ast{Kind: AAtomic, Kids: []*Ast{a}} }
	var out []*Ast
	for _, mkAtom := range []func() *Ast{func() *Ast { return lit('a') }, cls} {
		loops := []func() *Ast{
			func() *Ast { return rep(mkAtom(), 0, -1, false) }, func() *Ast { return rep(mkAtom(), 1, -1, false) },
			func() *Ast { return rep(mkAtom(), 0, 1, false) }, func() *Ast { return rep(mkAtom(), 1, 2, false) },
			func() *Ast { return rep(mkAtom(), 0, -1, true) }, func() *Ast { return rep(mkAtom(), 1, -1, true) },
			func() *Ast { return atomic(rep(mkAtom(), 0, -1, false)) }, func() *Ast { return atomic(rep(mkAtom(), 1, -1, false)) },
			func() *Ast { return atomic(rep(mkAtom(), 0, 1, false)) }, func() *Ast { return atomic(rep(mkAtom(), 1, 2, false)) },
		}
		followers := []func() []*Ast{
			func() []*Ast { return []*Ast{lit('a')} }, func() []*Ast { return []*Ast{lit('a'), lit('b')} },
			func() []*Ast { return []*Ast{lit('a'), lit('a'), lit('b')} }, func() []*Ast { return []*Ast{rep(lit('a'), 1, -1, false)} },
			func() []*Ast { return []*Ast{lit('a'), rep(lit('b'), 0, -1, false)} }, func() []*Ast { return []*Ast{lit('b'), lit('a')} },
		}
		for _, l := range loops {
			for _, f := range followers {
				out = append(out, cat(append([]*Ast{l()}, f()...)...))
				out = append(out, cat(append(f(), l())...))
			}
		}
	}
	// alternations whose branches begin with the same single-character loop, with equal and unequal counts (what the
	// common-prefix extraction may and may not factor out)
	for _, mkAtom := range []func() *Ast{cls, func() *Ast { return &Ast{Kind: ADot} }} {
		for _, cnt := range [][4]int{{2, 2, 2, 3}, {2, 3, 2, 2}, {1, 1, 1, -1}, {2, 2, 2, 2}, {0, 1, 0, 2}, {2, 2, 3, 3}, {1, 2, 1, 2}} {
			for _, lazy := range []bool{false, true} {
				out = append(out, alt(cat(rep(mkAtom(), cnt[0], cnt[1], lazy), lit('x')), cat(rep(mkAtom(), cnt[2], cnt[3], lazy), lit('y'))))
			}
		}
		out = append(out, alt(cat(rep(mkAtom(), 2, 2, false), lit('x')), cat(rep(mkAtom(), 2, 3, false), lit('y')), cat(rep(mkAtom(), 2, 2, false), lit('z'))))
	}
	// a class that mixes a shorthand with literals next to a class it overlaps only through the shorthand (the
	// overlap test behind the automatic atomic loops must look at categories as well as ranges)
	mixed := func(short byte, extra ...rune) *Ast {
		a := &Ast{Kind: AClass, Items: []ClassItem{{Short: short}}}
		for _, ch := range extra {
			a.Items = append(a.Items, ClassItem{Lo: ch, Hi: ch})
		}
		return a
	}
	az := func() *Ast { return &Ast{Kind: AClass, Items: []ClassItem{{Lo: 'a', Hi: 'z'}}} }
	dg := func() *Ast { return &Ast{Kind: AClass, Items: []ClassItem{{Lo: '0', Hi: '9'}}} }
	out = append(out,
		cat(grp(rep(mixed('w', '.'), 1, -1, false)), az()), cat(grp(rep(az(), 0, -1, false)), mixed('w', '.'), lit('x')),
		cat(rep(mixed('d', '_'), 1, -1, false), dg()), cat(rep(dg(), 0, -1, false), mixed('d', '_'), lit('1')),
		cat(rep(mixed('s', ','), 1, -1, false), &Ast{Kind: AClass, Items: []ClassItem{{Lo: ' ', Hi: ' '}}}),
		cat(rep(mixed('w', '.'), 0, -1, true), az(), lit('.')), cat(rep(mixed('W', 'a'), 1, -1, false), mixed('w')),
	)
	// a counted group whose body is a literal followed by something that is not (what may be said about the text a
	// match starts with stops at the first non-literal of the FIRST iteration)
	dgt := func() *Ast { return &Ast{Kind: AClass, Items: []ClassItem{{Lo: '0', Hi: '9'}}} }
	nc := func(a *Ast) *Ast { return &Ast{Kind: ANonCap, Kids: []*Ast{a}} }
	out = append(out,
		rep(nc(cat(lit('a'), dgt())), 2, 2, false), rep(grp(cat(lit('a'), &Ast{Kind: ADot})), 3, 3, false), rep(nc(alt(cat(lit('a'), lit('b')), cat(lit('a'), lit('c')))), 2, 2, false),
		cat(rep(nc(cat(lit('a'), dgt())), 2, 3, false), lit('z')), rep(nc(cat(lit('a'), lit('b'), dgt())), 2, -1, true), cat(rep(grp(cat(lit('a'), rep(lit('b'), 0, 1, false))), 2, 2, false), lit('a')),
	)
	// stand-alone inline options that change which parentheses capture: (?n)(a)(?<x>b), (?n:(?-n)(a)b)(c), ((?n)(a))(b)
	bareOpt := func(on, off string, body *Ast) *Ast {
		return &Ast{Kind: AOptGroup, On: on, Off: off, ForceBare: true, Kids: []*Ast{body}}
	}
	named := func(nm string, a *Ast) *Ast { return &Ast{Kind: AGroup, Name: nm, Kids: []*Ast{a}} }
	out = append(out,
		bareOpt("n", "", cat(grp(lit('a')), named("x", lit('b')))),
		cat(&Ast{Kind: AOptGroup, On: "n", Kids: []*Ast{bareOpt("", "n", cat(grp(lit('a')), lit('b')))}}, grp(lit('c'))),
		cat(grp(bareOpt("n", "", cat(grp(lit('a')), lit('b')))), grp(lit('c')), &Ast{Kind: ABackref, Ref: 2}),
		cat(lit('a'), bareOpt("n", "", cat(grp(lit('b')), named("y", lit('c')), &Ast{Kind: ABackref, Name: "y"}))),
		cat(grp(lit('a')), bareOpt("i", "", cat(grp(lit('b')), &Ast{Kind: ABackref, Ref: 1}))),
	)
	// an optional WIDE class (more than five characters and not one range, so the first-character analyses take their
	// general path instead of the small leading-set search) in front of constructs whose first characters come from
	// several branches: conditionals on a group or on a lookahead, alternations, optional items, backreferences
	wideCap := func() *Ast { return rep(grp(&Ast{Kind: AClass, Items: []ClassItem{{Short: 'd'}}}), 0, 1, false) }
	wideCls := func() *Ast {
		return rep(&Ast{Kind: AClass, Items: []ClassItem{{Lo: 'p', Hi: 'r'}, {Lo: 'x', Hi: 'z'}, {Lo: '0', Hi: '1'}}}, 0, -1, false)
	}
	look := func(a *Ast) *Ast { return &Ast{Kind: ALook, Kids: []*Ast{a}} }
	for _, w := range []func() *Ast{wideCap, wideCls} {
		out = append(out,
			cat(w(), alt(lit('b'), lit('c'))), cat(w(), rep(lit('b'), 0, 1, false), lit('c')),
			cat(w(), &Ast{Kind: ACondExpr, Kids: []*Ast{look(lit('b')), cat(lit('b'), lit('b')), lit('c')}}),
			cat(w(), &Ast{Kind: ACondExpr, Kids: []*Ast{look(lit('b')), lit('b')}}, lit('c')),
			cat(w(), alt(cat(lit('b'), lit('c')), rep(lit('c'), 1, -1, true))),
		)
	}
	out = append(out,
		cat(wideCap(), &Ast{Kind: ACondRef, Ref: 1, Kids: []*Ast{lit('b'), lit('c')}}),
		cat(wideCap(), &Ast{Kind: ACondRef, Ref: 1, Kids: []*Ast{lit('b')}}, lit('c')),
		cat(wideCap(), &Ast{Kind: ACondRef, Ref: 1, Kids: []*Ast{rep(lit('b'), 0, -1, false), lit('c')}}, lit('c')),
		cat(rep(grp(&Ast{Kind: AClass, Items: []ClassItem{{Short: 'w'}}}), 0, 1, true), &Ast{Kind: ACondRef, Ref: 1, Kids: []*Ast{lit('!'), lit('?')}}),
		cat(wideCap(), &Ast{Kind: ABackref, Ref: 1}, lit('b')),
	)
	// a loop that can take a newline in front of an end anchor, under Multiline and without: only \z is indifferent to
	// what the loop gives back
	spc := func() *Ast { return &Ast{Kind: AClass, Items: []ClassItem{{Short: 's'}}} }
	notA := func() *Ast { return &Ast{Kind: AClass, Neg: true, Items: []ClassItem{{Lo: 'a', Hi: 'b'}}} } // (a SET loop: [^a] alone is a different node kind)
	for _, an := range []string{"$", `\Z`, `\z`} {
		for _, mk := range []func() *Ast{spc, notA} {
			a := func() *Ast { return &Ast{Kind: AAnchor, Name: an} }
			out = append(out,
				bareOpt("m", "", cat(rep(mk(), 1, -1, false), a())), cat(rep(mk(), 1, -1, false), a()),
				bareOpt("m", "", cat(lit('a'), rep(mk(), 0, -1, false), a())), bareOpt("m", "", cat(grp(rep(mk(), 1, -1, true)), a())),
			)
		}
	}
	// a group that can be empty, then an OPTIONAL group that starts with a backreference to it: the first characters of a
	// match include whatever follows the backreference (and nothing can be said when the reference may stand for any text)
	nc2 := func(a *Ast) *Ast { return &Ast{Kind: ANonCap, Kids: []*Ast{a}} }
	bref := func() *Ast { return &Ast{Kind: ABackref, Ref: 1} }
	out = append(out,
		cat(grp(rep(lit('a'), 0, -1, false)), rep(nc2(cat(bref(), lit('b'))), 0, 1, false), lit('c')),
		cat(grp(rep(lit('a'), 0, 1, false)), rep(nc2(cat(bref(), lit('b'))), 0, -1, false), lit('c')),
		cat(grp(alt(lit('a'), rep(lit('b'), 0, 1, false))), rep(nc2(cat(bref(), lit('b'))), 0, 2, true), lit('c')),
		cat(&Ast{Kind: ALook, Behind: true, Kids: []*Ast{grp(lit('c'))}}, rep(nc2(cat(bref(), lit('a'))), 0, 1, false), lit('b')),
		cat(grp(rep(lit('a'), 0, -1, false)), rep(grp(cat(bref(), lit('b'))), 0, 1, false), lit('c')),
		cat(rep(grp(lit('a')), 0, 1, false), rep(nc2(cat(bref(), lit('b'))), 1, 2, false), lit('c')),
	)
	// atomic alternations of three or more literal branches sharing first or last characters (the regrouping of
	// branches by their first character is right only where a branch is entered by its first character: not when
	// matching right to left), bare, next to a literal and at the end of a lookbehind
	lits := func(s string) *Ast {
		var k []*Ast
		for _, ch := range s {
			k = append(k, lit(ch))
		}
		if len(k) == 1 {
			return k[0]
		}
		return cat(k...)
	}
	for _, br := range [][]string{{"ax", "b", "ab"}, {"cx", "bc", "c"}, {"xa", "b", "ba"}, {"ab", "cb", "acb"}, {"a", "ba", "ca", "bca"}} {
		mk := func() *Ast {
			var k []*Ast
			for _, b := range br {
				k = append(k, lits(b))
			}
			return atomic(alt(k...))
		}
		out = append(out, mk(), cat(lit('c'), mk()), cat(mk(), lit('c')), cat(&Ast{Kind: ALook, Behind: true, Kids: []*Ast{cat(grp(alt(lits(br[0]), lits(br[1]), lits(br[2]))), lit('c'))}}, lit('a')))
	}
	// an anchor first or last next to a literal (the candidate-position filters of both scan directions key on them)
	for _, an := range []string{"^", "$", `\A`, `\z`, `\Z`, `\b`, `\B`} {
		a := func() *Ast { return &Ast{Kind: AAnchor, Name: an} }
		out = append(out, cat(a(), lit('b')), cat(lit('b'), a()), cat(lit('a'), lit('b'), a()), cat(a(), lit('a'), lit('b')), cat(grp(lit('b')), a()), cat(a(), grp(lit('b'))))
		// fixed-length patterns WITHOUT a literal prefix in front of (behind) the anchor: the searches that jump to
		// "end minus length" must know that $ and \Z also hold before a final newline
		out = append(out, cat(cls(), lit('b'), a()), cat(cls(), cls(), a()), cat(&Ast{Kind: ADot}, a()), cat(a(), cls(), lit('b')), cat(a(), &Ast{Kind: ADot}, lit('b')), cat(grp(cls()), cls(), a()))
	}
	return out
}

// semCorpus: minimised shapes of past disagreements between the engine and the reference semantics
func semCorpus() []*Ast {
	dot := &Ast{Kind: ADot}
	return []*Ast{
		cat(lit('a'), lit('b'), rep(lit('a'), 0, -1, false)),                                  // aba*  (right-to-left: literal + loop merge)
		cat(lit('a'), lit('b'), rep(lit('b'), 0, -1, false)),                                  // abb*
		cat(rep(lit('a'), 0, -1, false), lit('a'), lit('b')),                                  // a*ab
		cat(lit('a'), lit('b'), rep(lit('a'), 1, -1, true), lit('b')),                         // aba+?b
		alt(cat(lit('a'), lit('b')), cat(dot, lit('c'))),                                      // ab|.c
		cat(&Ast{Kind: AAtomic, Kids: []*Ast{cat(rep(lit('a'), 1, -1, true), rep(lit('b'), 0, 1, false))}}, lit('c')), // (?>a+?b?)c
		cat(grp(cat(rep(lit('a'), 0, -1, false), rep(lit('c'), 0, 1, false))), lit('b'), &Ast{Kind: ABackref, Ref: 1}), // (a*c?)b\1
		cat(rep(&Ast{Kind: ANonCap, Kids: []*Ast{cat(lit('a'), rep(lit('b'), 0, -1, false))}}, 2, 2, false)),       // (?:ab*){2}
		cat(rep(&Ast{Kind: AAtomic, Kids: []*Ast{rep(lit('a'), 1, -1, false)}}, 0, 1, false), lit('a'), lit('b')),                          // (?>a+)?ab
		rep(&Ast{Kind: AAtomic, Kids: []*Ast{rep(lit('a'), 1, 2, false)}}, 2, 2, false),                                                   // (?>a{1,2}){2}
		cat(rep(&Ast{Kind: AClass, Items: []ClassItem{{Lo: 'a', Hi: 'a'}, {Lo: 'c', Hi: 'c'}}}, 0, -1, false), rep(&Ast{Kind: AClass, Items: []ClassItem{{Lo: 'a', Hi: 'b'}}}, 1, 2, false), lit('a')), // [ac]*[ab]{1,2}a
		alt(grp(cat(lit('c'), lit('d'), lit('e'))), grp(cat(lit('c'), lit('x'))), grp(cat(lit('c'), lit('d'), lit('e'), lit('f')))), // (cde)|(cx)|(cdef)
	}
}
