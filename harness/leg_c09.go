package main

// C09 — Replace, ReplaceFunc and Split are the fold of the match sequence.
//
// Legs:
//   c09-parse    syntax.NewReplacerData (Strings, Rules, error) == model new_replacer_data (901)
//   c09-replace  Replace == model replace_string on the real match sequence (902) == replace_spec (905);
//                ReplaceFunc with a Go evaluator written from the property text == Replace, and == model (903);
//                Replace with "$&" is the identity; a freshly compiled Regexp gives the same string (cache).
//   c09-split    Split == model split (904) == split_spec (906); pieces re-joined with the matched texts
//                rebuild the input.
// The match sequence handed to the model is obtained from FindStringMatchStartingAt / FindNextMatch.

import (
	"errors"
	"fmt"
	"sort"
	"strings"
	"time"
	"unicode/utf8"

	"github.com/dlclark/regexp2/v2"
	"github.com/dlclark/regexp2/v2/syntax"
)

func init() {
	registerLeg("c09-parse", "C09", legC09Parse)
	registerLeg("c09-replace", "C09", legC09Replace)
	registerLeg("c09-split", "C09", legC09Split)
}

// ---------------------------------------------------------------------------------------------
// encoders

func c09Runes(s string) []int64 {
	out := []int64{0}
	for _, r := range s {
		out = append(out, int64(r))
		out[0]++
	}
	return out
}

// `range` view of a string: (rune, byte width) pairs
func c09TW(s string) []int64 {
	var idx []int
	var rs []rune
	for i, r := range s {
		idx = append(idx, i)
		rs = append(rs, r)
	}
	idx = append(idx, len(s))
	out := []int64{int64(len(rs))}
	for i, r := range rs {
		out = append(out, int64(r), int64(idx[i+1]-idx[i]))
	}
	return out
}

type c09Env struct {
	opts     regexp2.RegexOptions
	caps     map[int]int
	capsize  int
	capnames map[string]int
}

func c09EnvOf(pat string, opts regexp2.RegexOptions) (*c09Env, error) {
	tree, err := syntax.Parse(pat, syntax.ParseOptions{RegexOptions: syntax.RegexOptions(opts)})
	if err != nil {
		return nil, err
	}
	code, err := syntax.Write(tree)
	if err != nil {
		return nil, err
	}
	return &c09Env{opts: opts, caps: code.Caps, capsize: code.Capsize, capnames: tree.Capnames}, nil
}

func (e *c09Env) enc() []int64 {
	out := []int64{int64(e.opts)}
	if e.caps == nil {
		out = append(out, 0)
	} else {
		var ks []int
		for k := range e.caps {
			ks = append(ks, k)
		}
		sort.Ints(ks)
		out = append(out, 1, int64(len(ks)))
		for _, k := range ks {
			out = append(out, int64(k), int64(e.caps[k]))
		}
	}
	out = append(out, int64(e.capsize))
	if e.capnames == nil {
		out = append(out, 0)
	} else {
		var ns []string
		for n := range e.capnames {
			ns = append(ns, n)
		}
		sort.Strings(ns)
		out = append(out, 1, int64(len(ns)))
		for _, n := range ns {
			out = append(out, c09Runes(n)...)
			out = append(out, int64(e.capnames[n]))
		}
	}
	return out
}

func c09HexVal(c rune) int {
	switch {
	case c >= '0' && c <= '9':
		return int(c - '0')
	case c >= 'a' && c <= 'f':
		return int(c-'a') + 10
	case c >= 'A' && c <= 'F':
		return int(c-'A') + 10
	}
	return -1
}

// oracle bits for every rune the parser can ask about: the runes of the replacement and every value a
// \uXXXX or \u{...} escape inside it can decode to
func c09Oracle(rep string) []int64 {
	rs := []rune(rep)
	set := map[rune]bool{}
	for _, r := range rs {
		set[r] = true
	}
	for i := 0; i+1 < len(rs); i++ {
		if rs[i] == '\\' && rs[i+1] == 'u' {
			j := i + 2
			if j < len(rs) && rs[j] == '{' {
				v := 0
				for j++; j < len(rs) && c09HexVal(rs[j]) >= 0 && v <= 0x10ffff; j++ {
					v = v*16 + c09HexVal(rs[j])
					set[rune(v)] = true
				}
			} else {
				v := 0
				for k := 0; k < 4 && j < len(rs) && c09HexVal(rs[j]) >= 0; k, j = k+1, j+1 {
					v = v*16 + c09HexVal(rs[j])
					set[rune(v)] = true
				}
			}
		}
	}
	var ks []int
	for r := range set {
		ks = append(ks, int(r))
	}
	sort.Ints(ks)
	out := []int64{int64(len(ks))}
	for _, k := range ks {
		r := rune(k)
		var b int64
		if syntax.IsWordChar(r) {
			b |= 1
		}
		if syntax.IsECMAIdentifierStartChar(r) {
			b |= 2
		}
		if syntax.IsECMAIdentifierChar(r) {
			b |= 4
		}
		out = append(out, int64(k), b)
	}
	return out
}

type c09Match struct {
	idx, length int
	groups      [][][2]int
}

func c09MatchOf(m *regexp2.Match) c09Match {
	out := c09Match{idx: m.RuneIndex, length: m.RuneLength}
	for _, g := range m.Groups() {
		var cs [][2]int
		for _, c := range g.Captures {
			cs = append(cs, [2]int{c.RuneIndex, c.RuneLength})
		}
		out.groups = append(out.groups, cs)
	}
	return out
}

func c09EncMatches(ms []c09Match) []int64 {
	out := []int64{int64(len(ms))}
	for _, m := range ms {
		out = append(out, int64(m.idx), int64(m.length), int64(len(m.groups)))
		for _, g := range m.groups {
			out = append(out, int64(len(g)))
			for _, c := range g {
				out = append(out, int64(c[0]), int64(c[1]))
			}
		}
	}
	return out
}

var c09ErrTimeout = errors.New("timeout")

// the successive matches from startAt (FindStringMatchStartingAt / FindNextMatch); nil when the
// start is rejected
func c09Sequence(re *regexp2.Regexp, input string, startAt int) (ms []c09Match, err error) {
	defer func() {
		if e := recover(); e != nil {
			err = fmt.Errorf("panic: %v", e)
		}
	}()
	m, e := re.FindStringMatchStartingAt(input, startAt)
	for n := 0; m != nil && e == nil; n++ {
		if n > 200 {
			return nil, fmt.Errorf("more than 200 successive matches")
		}
		ms = append(ms, c09MatchOf(m))
		m, e = re.FindNextMatch(m)
	}
	if e != nil && strings.Contains(e.Error(), "timeout") {
		return nil, c09ErrTimeout
	}
	return ms, nil
}

// the successive matches of the RUNE entry points from the rune at byte offset startAt
// (FindRunesMatchStartingAt / FindNextMatch): the same runner.scan calls, with the same arguments, as
// replaceRunnerLTR/RTL make (no string prefilter).  nil when startAt is not a valid start.
func c09SequenceRunes(re *regexp2.Regexp, input string, startAt int) (ms []c09Match, err error) {
	defer func() {
		if e := recover(); e != nil {
			err = fmt.Errorf("panic: %v", e)
		}
	}()
	runes := []rune(input)
	start := -1
	if startAt >= 0 {
		if startAt > len(input) {
			return nil, nil
		}
		n, found := 0, false
		for i := range input {
			if i == startAt {
				start, found = n, true
			}
			n++
		}
		if startAt == len(input) {
			start, found = n, true
		}
		if !found {
			return nil, nil
		}
	}
	m, e := re.FindRunesMatchStartingAt(runes, start)
	for n := 0; m != nil && e == nil; n++ {
		if n > 200 {
			return nil, fmt.Errorf("more than 200 successive matches")
		}
		ms = append(ms, c09MatchOf(m))
		m, e = re.FindNextMatch(m)
	}
	if e != nil && strings.Contains(e.Error(), "timeout") {
		return nil, c09ErrTimeout
	}
	return ms, nil
}

// hypothesis of the C09 theorems (wf_matches): in bounds, ordered, disjoint
func c09WF(ms []c09Match, n int, rtl bool) string {
	prev := 0
	if rtl {
		prev = n
	}
	for i, m := range ms {
		if m.idx < 0 || m.length < 0 || m.idx+m.length > n || len(m.groups) == 0 {
			return fmt.Sprintf("match %d out of bounds", i)
		}
		for _, g := range m.groups {
			for _, c := range g {
				if c[0] < 0 || c[1] < 0 || c[0]+c[1] > n {
					return fmt.Sprintf("match %d: capture out of bounds", i)
				}
			}
		}
		g0 := m.groups[0]
		if len(g0) == 0 || g0[len(g0)-1] != [2]int{m.idx, m.length} {
			return fmt.Sprintf("match %d: group 0 is not the match", i)
		}
		if rtl {
			if m.idx+m.length > prev {
				return fmt.Sprintf("match %d not below the previous one", i)
			}
			prev = m.idx
		} else {
			if m.idx < prev {
				return fmt.Sprintf("match %d not after the previous one", i)
			}
			prev = m.idx + m.length
		}
	}
	return ""
}

func c09ErrCode(err error) int64 {
	var se *syntax.Error
	if errors.As(err, &se) {
		switch se.Code {
		case syntax.ErrCaptureGroupOutOfRange:
			return 20
		case syntax.ErrInvalidECMAGroupName:
			return 21
		case syntax.ErrTooFewHex:
			return 5
		case syntax.ErrInvalidHex:
			return 6
		case syntax.ErrMissingBrace:
			return 7
		}
		return 98
	}
	switch err.Error() {
	case "count too small":
		return 11
	case "startAt must be less than the length of the input string":
		return 12
	case "startAt must align to the start of a valid rune in the input string":
		return 13
	}
	return 99
}

func c09ResString(s string, err error) []int64 {
	if err != nil {
		return []int64{1, c09ErrCode(err)}
	}
	return append([]int64{0}, c09Runes(s)...)
}

func c09ResPieces(ps []string, err error) []int64 {
	if err != nil {
		return []int64{1, c09ErrCode(err)}
	}
	out := []int64{0, int64(len(ps))}
	for _, p := range ps {
		out = append(out, c09Runes(p)...)
	}
	return out
}

// ---------------------------------------------------------------------------------------------
// generators

var c09Names = []string{"n", "w1", "name", "é", "_x", "o"}

func c09Atom(r *Rng, depth int, ecma bool) string {
	switch k := r.Intn(20); {
	case k < 5:
		return Pick(r, []string{"a", "b", "c", "x", "1", "2", "é", "日", " ", "ab"})
	case k < 8:
		return Pick(r, []string{"[ab]", `\d`, `\w`, ".", "[^a]", `\s`, "[a-c1]", `\D`})
	case k < 13 && depth > 0:
		inner := c09Alt(r, depth-1, ecma)
		switch r.Intn(8) {
		case 0, 1, 2:
			return "(" + inner + ")"
		case 3, 4:
			return "(?<" + Pick(r, c09Names) + ">" + inner + ")"
		case 5:
			if !ecma {
				return "(?<" + Pick(r, []string{"5", "2", "20", "10"}) + ">" + inner + ")"
			}
			return "(" + inner + ")"
		case 6:
			return "(?:" + inner + ")"
		default:
			return "(" + inner + ")?"
		}
	case k < 16:
		if ecma {
			return Pick(r, []string{`\b`, "(?=x)", "(?!a)", "^", "$", "a*", "", `\B`, "b?"})
		}
		return Pick(r, []string{`\b`, "(?=x)", "(?!a)", "^", "$", "a*", "(?<=a)", "", `\B`, "(?<!b)", "b?", `\G`})
	default:
		return Pick(r, []string{"a", "b", "1", `\d`, "[ab]", "x"})
	}
}

func c09Quant(r *Rng, depth int, ecma bool) string {
	a := c09Atom(r, depth, ecma)
	if a == "" || a == "^" || a == "$" || strings.HasSuffix(a, "*") || strings.HasSuffix(a, "?") || a == "ab" {
		return a
	}
	if r.Chance(35) {
		return a + Pick(r, []string{"*", "+", "?", "{1,2}", "*?", "+?", "??", "{2}"})
	}
	return a
}

func c09Concat(r *Rng, depth int, ecma bool) string {
	n := 1 + r.Intn(3)
	var sb strings.Builder
	for i := 0; i < n; i++ {
		sb.WriteString(c09Quant(r, depth, ecma))
	}
	return sb.String()
}

func c09Alt(r *Rng, depth int, ecma bool) string {
	s := c09Concat(r, depth, ecma)
	if r.Chance(20) {
		s += "|" + c09Concat(r, depth, ecma)
	}
	return s
}

var c09Fixed = []string{
	`\d`, `a*`, `\b`, `(?=x)`, `(a)(b)?`, `(?<n>a)(?<5>b)`, `(a)(b)(c)(d)(e)(f)(g)(h)(i)(j)`, `(\w)(\d)?`,
	`(?<o>a)+(?<-o>b)*`, `(?<o>a)(?<c-o>b)`, `(z)|(?<o>a)+(?<-o>b)`, `(?<x>z)?(?<o>a)+(?<-o>b)`, `(?:(?<o>a)|(?<c-o>b))+`, `(x)?(?:(?<o>a)|(?<-o>b))+`, `(?<o>a)+(?<-o>b)(c)?`, `(?<5>a)(?<20>b)?`, `(a)|(b)`, `(?:(a)|b)+`, `(é)(日)?`, ``, `x*?`, `(a*)`, `((a)|(b))*`,
}

type c09Compiled struct {
	pat  string
	opts regexp2.RegexOptions
	re   *regexp2.Regexp
	env  *c09Env
	nums []int
	name []string
}

func c09Compile(pat string, opts regexp2.RegexOptions) (cp *c09Compiled) {
	defer func() {
		if e := recover(); e != nil {
			cp = nil
		}
	}()
	re, err := regexp2.Compile(pat, opts)
	if err != nil {
		return nil
	}
	re.MatchTimeout = 2 * time.Second
	env, err := c09EnvOf(pat, opts)
	if err != nil {
		return nil
	}
	cp = &c09Compiled{pat: pat, opts: opts, re: re, env: env, nums: re.GetGroupNumbers()}
	for _, n := range re.GetGroupNames() {
		if n != "" && (n[0] < '0' || n[0] > '9') {
			cp.name = append(cp.name, n)
		}
	}
	return cp
}

func c09GenCompiled(r *Rng) *c09Compiled {
	for {
		var opts regexp2.RegexOptions
		if r.Chance(45) {
			opts |= regexp2.RightToLeft
		}
		ecma := r.Chance(20)
		if ecma {
			opts |= regexp2.ECMAScript
			if r.Bool() {
				opts |= regexp2.Unicode
			}
		}
		if r.Chance(12) {
			opts |= regexp2.IgnoreCase
		}
		if r.Chance(6) {
			opts |= regexp2.ExplicitCapture
		}
		var pat string
		if r.Chance(25) {
			pat = Pick(r, c09Fixed)
		} else {
			pat = c09Alt(r, 2, ecma)
		}
		if cp := c09Compile(pat, opts); cp != nil {
			return cp
		}
	}
}

func c09Input(r *Rng) string {
	n := r.Intn(11)
	var sb strings.Builder
	for i := 0; i < n; i++ {
		switch k := r.Intn(20); {
		case k < 12:
			sb.WriteString(Pick(r, []string{"a", "b", "c", "x", "1", "2", " "}))
		case k < 16:
			sb.WriteString(Pick(r, []string{"é", "日", "😀", "A", "B"}))
		case k < 17:
			sb.WriteString(Pick(r, []string{"\xff", "\xc3", "\xe6\x97"}))
		default:
			sb.WriteString(Pick(r, []string{"ab", "a1", "12", "aa", "xa"}))
		}
	}
	return sb.String()
}

// replacement strings as token lists.  kind: 0 literal, 1 ${n}/$n, 2 ${name}, 3 $&, 4 $`, 5 $', 6 $+, 7 $_, 8 $$,
// 9 raw fragment (no independent meaning: model comparison only)
type c09Tok struct {
	kind int
	lit  string
	num  int
}

var c09WildFrags = []string{"$", "$$", "$&", "$`", "$'", "$+", "$_", "$0", "$1", "$2", "$3", "$5", "$9", "$10", "$11", "$12", "$20", "$01", "$007", "$99", "$100",
	"$2147483647", "$2147483648", "$99999999999", "${0}", "${1}", "${2}", "${5}", "${10}", "${20}", "${99}", "${01}", "${2147483648}", "${10", "${1", "$1a", "${n}", "${w1}", "${name}", "${é}", "${_x}", "${o}", "${c}", "${zz}",
	"${n", "${ n}", "${n }", "${}", "${", "$}", "$x", "$-1", "${-1}", "${1a}", "${a-b}", "${n}}", "$${n}", "$$1", "$&1", "$+1", "$_x",
	`${n}`, `${\u{6e}}`, `${\u00}`, `${\x}`, `${n1}`, `${w1}`, `${\`, `${\u{110000}}`, `${\u{6e}`, `${1}`, `${$n}`, `${n$}`,
	"a", "é", "日", "<", ">", "{", "}", "1", "0", "\\", " ", "ab", "$ ", "😀"}

func c09GenRep(r *Rng, cp *c09Compiled, clean bool) (string, []c09Tok) {
	n := r.Intn(5)
	if clean {
		n = 1 + r.Intn(4)
	}
	var toks []c09Tok
	for i := 0; i < n; i++ {
		if !clean {
			if r.Chance(15) && len(cp.nums) > 0 {
				toks = append(toks, c09Tok{kind: 9, lit: fmt.Sprintf("$%d", Pick(r, cp.nums))})
			} else if r.Chance(10) && len(cp.name) > 0 {
				toks = append(toks, c09Tok{kind: 9, lit: "${" + Pick(r, cp.name) + "}"})
			} else {
				toks = append(toks, c09Tok{kind: 9, lit: Pick(r, c09WildFrags)})
			}
			continue
		}
		switch k := r.Intn(12); {
		case k < 3:
			toks = append(toks, c09Tok{kind: 0, lit: Pick(r, []string{"a", "<", ">", "é", "日", "-", "{", "}", "x1", "7", " ", "[", "]"})})
		case k < 6:
			toks = append(toks, c09Tok{kind: 1, num: Pick(r, cp.nums)})
		case k < 7 && len(cp.name) > 0:
			toks = append(toks, c09Tok{kind: 2, lit: Pick(r, cp.name)})
		default:
			toks = append(toks, c09Tok{kind: 3 + r.Intn(6)})
		}
	}
	var sb strings.Builder
	for i, t := range toks {
		switch t.kind {
		case 0, 9:
			sb.WriteString(t.lit)
		case 1:
			nextDigit := false
			if i+1 < len(toks) && toks[i+1].kind == 0 {
				c := toks[i+1].lit[0]
				nextDigit = c >= '0' && c <= '9'
			}
			if nextDigit || r.Bool() {
				fmt.Fprintf(&sb, "${%d}", t.num)
			} else {
				fmt.Fprintf(&sb, "$%d", t.num)
			}
		case 2:
			sb.WriteString("${" + t.lit + "}")
		default:
			sb.WriteString([]string{"$&", "$`", "$'", "$+", "$_", "$$"}[t.kind-3])
		}
	}
	return sb.String(), toks
}

// the expansion of a clean token list against a match, written from the property text with the
// public Match API only
func c09Expand(toks []c09Tok, input []rune, m regexp2.Match) string {
	var sb strings.Builder
	for _, t := range toks {
		switch t.kind {
		case 0:
			sb.WriteString(t.lit)
		case 1:
			if g := m.GroupByNumber(t.num); g != nil {
				sb.WriteString(g.String())
			}
		case 2:
			if g := m.GroupByName(t.lit); g != nil {
				sb.WriteString(g.String())
			}
		case 3:
			sb.WriteString(m.String())
		case 4:
			sb.WriteString(string(input[:m.RuneIndex]))
		case 5:
			sb.WriteString(string(input[m.RuneIndex+m.RuneLength:]))
		case 6:
			gs := m.Groups()
			sb.WriteString(gs[len(gs)-1].String())
		case 7:
			sb.WriteString(string(input))
		case 8:
			sb.WriteString("$")
		}
	}
	return sb.String()
}

func c09StartAt(r *Rng, input string) int {
	switch k := r.Intn(20); {
	case k < 5:
		return -1
	case k < 6:
		return len(input) + 1 + r.Intn(2)
	case k < 7:
		return -2 - r.Intn(3)
	default:
		return r.Intn(len(input) + 1)
	}
}

func c09Count(r *Rng) int {
	if r.Chance(5) {
		return -2 - r.Intn(2)
	}
	return Pick(r, []int{-1, -1, -1, 0, 1, 2, 2, 5, 3})
}

func c09Opts(o regexp2.RegexOptions) string {
	var s []string
	for _, p := range []struct {
		b regexp2.RegexOptions
		n string
	}{{regexp2.RightToLeft, "RightToLeft"}, {regexp2.ECMAScript, "ECMAScript"}, {regexp2.Unicode, "Unicode"}, {regexp2.IgnoreCase, "IgnoreCase"}, {regexp2.ExplicitCapture, "ExplicitCapture"}} {
		if o&p.b != 0 {
			s = append(s, p.n)
		}
	}
	if len(s) == 0 {
		return "None"
	}
	return strings.Join(s, "|")
}

// ---------------------------------------------------------------------------------------------
// leg c09-parse

func c09SafeNewReplacerData(rep string, e *c09Env) (d *syntax.ReplacerData, err error, pan string) {
	defer func() {
		if x := recover(); x != nil {
			pan = fmt.Sprint(x)
		}
	}()
	d, err = syntax.NewReplacerData(rep, e.caps, e.capsize, e.capnames, syntax.RegexOptions(e.opts))
	return
}

func legC09Parse(c *Ctx) {
	c.Rule("replacement strings from the $-grammar (valid, ambiguous $10 with 1 vs 10 groups, ${1, $1a, literal $, overflowing numbers, ECMAScript \\u escapes in names) x capture maps of real patterns (dense, sparse, named; with/without ECMAScript/Unicode): syntax.NewReplacerData (Strings, Rules, error) must equal the model; non-trivial = at least one group/special rule (distinct by (options, pattern, replacement))")
	pats := []string{`a`, `(a)`, `(a)(b)`, `(a)(b)(c)(d)(e)(f)(g)(h)(i)(j)`, `(a)(b)(c)(d)(e)(f)(g)(h)(i)(j)(k)(l)`, `(?<n>a)`, `(?<n>a)(?<5>b)`,
		`(?<5>a)(?<20>b)(?<100>c)`, `(?<é>a)(?<_x>b)`, `(?<w1>a)(b)(?<name>c)`, `(?<o>a)(?<c-o>b)`, `(a)(?<10>b)`, `(?<1>a)(?<01>b)`}
	var envs []*c09Compiled
	for _, p := range pats {
		for _, o := range []regexp2.RegexOptions{0, regexp2.ECMAScript, regexp2.ECMAScript | regexp2.Unicode, regexp2.RightToLeft, regexp2.IgnoreCase} {
			if cp := c09Compile(p, o); cp != nil {
				envs = append(envs, cp)
			}
		}
	}
	c.Gate("parse: at least 40 capture maps compiled", len(envs) >= 40)
	n := c.N(60000, 1000000)
	var sawErr, sawEcmaPrefix, sawTen, sawName, sawEscName, sawSparse bool
	for i := 0; i < n; i++ {
		var cp *c09Compiled
		if r := c.Rng.Intn(10); r < 7 {
			cp = Pick(c.Rng, envs)
		} else {
			cp = c09GenCompiled(c.Rng)
		}
		rep, _ := c09GenRep(c.Rng, cp, c.Rng.Chance(15))
		d, err, pan := c09SafeNewReplacerData(rep, cp.env)
		cs := &Case{Desc: fmt.Sprintf("NewReplacerData(%+q) for pattern %+q opts=%s", rep, cp.pat, c09Opts(cp.opts)), ModelLeg: 901,
			ModelIn: append(append(cp.env.enc(), c09Oracle(rep)...), c09Runes(rep)...), Key: fmt.Sprintf("%d|%s|%s", cp.opts, cp.pat, rep)}
		if pan != "" {
			cs.Direct = "NewReplacerData panicked: " + pan
			cs.ImplOut = []int64{2, 3}
			c.Add(cs)
			continue
		}
		if err != nil {
			cs.ImplOut = []int64{1, c09ErrCode(err)}
			cs.Class = "parse-error"
			sawErr = true
			// C09_parser_error_codes: since 273146b the name-scanner errors are swallowed by scanDollar
			if c09ErrCode(err) != 20 {
				cs.Direct = "NewReplacerData reported an error other than ErrCaptureGroupOutOfRange: " + err.Error()
			}
		} else {
			out := []int64{0, int64(len(d.Strings))}
			for _, s := range d.Strings {
				out = append(out, c09Runes(s)...)
			}
			out = append(out, int64(len(d.Rules)))
			for _, r := range d.Rules {
				out = append(out, int64(r))
				if r < 0 {
					cs.Nontrivial = true
				}
			}
			cs.ImplOut = out
			cs.Class = "parse-ok"
			if cp.opts&regexp2.ECMAScript != 0 && strings.Contains(rep, "$10") && len(cp.nums) < 10 && len(cp.nums) > 1 {
				sawEcmaPrefix = true
			}
			if strings.Contains(rep, "$10") && len(cp.nums) > 10 {
				sawTen = true
			}
			if strings.Contains(rep, "${n}") && cp.env.capnames["n"] > 0 {
				sawName = true
			}
			if strings.Contains(rep, `${n}`) && cp.opts&regexp2.ECMAScript != 0 && cp.env.capnames["n"] > 0 {
				sawEscName = true
			}
			if cp.env.caps != nil && cs.Nontrivial {
				sawSparse = true
			}
		}
		// Regexp.Replace must report the same parse outcome (getReplacerData is the only producer of parse errors)
		_, rerr := c09SafeReplace(cp.re, "", rep, -1, -1)
		if (rerr != nil) != (err != nil) || (err != nil && c09ErrCode(rerr) != c09ErrCode(err)) {
			cs.Direct = fmt.Sprintf("Regexp.Replace parse outcome %v differs from NewReplacerData %v", rerr, err)
		}
		c.Add(cs)
	}
	c.Gate("parse: a replacement that is rejected (number out of range / malformed ECMAScript name)", sawErr)
	c.Gate("parse: ECMAScript $10 with fewer than 10 groups", sawEcmaPrefix)
	c.Gate("parse: $10 with more than 10 groups", sawTen)
	c.Gate("parse: ${n} naming an existing group", sawName)
	c.Gate("parse: ECMAScript escaped group name", sawEscName)
	c.Gate("parse: sparse capture map", sawSparse)
}

// ---------------------------------------------------------------------------------------------
// leg c09-replace

func c09SafeReplace(re *regexp2.Regexp, input, rep string, startAt, count int) (out string, err error) {
	defer func() {
		if e := recover(); e != nil {
			err = fmt.Errorf("panic: %v", e)
		}
	}()
	return re.Replace(input, rep, startAt, count)
}

func c09SafeReplaceFunc(re *regexp2.Regexp, input string, ev regexp2.MatchEvaluator, startAt, count int) (out string, err error) {
	defer func() {
		if e := recover(); e != nil {
			err = fmt.Errorf("panic: %v", e)
		}
	}()
	return re.ReplaceFunc(input, ev, startAt, count)
}

func c09IsPanic(err error) bool {
	return err != nil && strings.HasPrefix(err.Error(), "panic: ")
}
func c09IsTimeout(err error) bool {
	return err != nil && strings.Contains(err.Error(), "timeout")
}

func legC09Replace(c *Ctx) {
	c.Rule("generated patterns (literals, classes, numbered/named/explicitly numbered/balancing captures, optional groups, alternation, greedy and lazy loops, empty-matching a*, \\b, lookarounds; LeftToRight/RightToLeft, ECMAScript, IgnoreCase, ExplicitCapture) x inputs (ASCII, multi-byte, invalid UTF-8) x replacement strings from the $-grammar x startAt in [-3, len+2] bytes incl. non-rune-boundaries x count in {-3..5}; >= 17 distinct replacement strings per Regexp (28 calls, old strings re-used after eviction); non-trivial = at least one match replaced and output != input (distinct by (options, pattern, replacement, input, startAt, count))")
	nPat := c.N(1200, 20000)
	perPat := 28
	var gRtlMulti, gBoundary, gTooLarge, gEmpty, gInvalid, gMulti, gBalancing, gCountCut, gFunc, gGroupRef, gCache, gFuncErr bool
	runCase := func(cp *c09Compiled, rep string, toks []c09Tok, clean bool, input string, startAt, count int) {
		rtl := cp.opts&regexp2.RightToLeft != 0
		runes := []rune(input)
		desc := fmt.Sprintf("pattern %+q opts=%s input %+q replacement %+q startAt=%d count=%d", cp.pat, c09Opts(cp.opts), input, rep, startAt, count)
		key := fmt.Sprintf("%d|%s|%s|%s|%d|%d", cp.opts, cp.pat, rep, input, startAt, count)

		// ms: what the pattern driver scans (rune entry points); msS: what the evaluator driver sees (string entry points)
		ms, serr := c09SequenceRunes(cp.re, input, startAt)
		msS, serrS := c09Sequence(cp.re, input, startAt)
		if serr == c09ErrTimeout || serrS == c09ErrTimeout {
			return
		}
		if serr == nil {
			serr = serrS
		}
		if serr != nil {
			c.Add(&Case{Desc: desc, Direct: "enumerating the matches failed: " + serr.Error()})
			return
		}
		if w := c09WF(ms, len(runes), rtl) + c09WF(msS, len(runes), rtl); w != "" {
			c.Add(&Case{Desc: desc, Direct: "hypothesis wf_matches of the C09 theorems does not hold for the real match sequence: " + w})
			return
		}
		out, err := c09SafeReplace(cp.re, input, rep, startAt, count)
		if c09IsTimeout(err) {
			return
		}
		modelIn := append(append(append(cp.env.enc(), c09Oracle(rep)...), c09Runes(rep)...), b2i09(rtl))
		modelIn = append(modelIn, c09TW(input)...)
		modelIn = append(modelIn, int64(startAt), int64(count))
		modelInS := append(append([]int64(nil), modelIn...), c09EncMatches(msS)...)
		modelIn = append(modelIn, c09EncMatches(ms)...)
		processed := len(ms)
		if count >= 0 && count < processed {
			processed = count
			gCountCut = gCountCut || count > 0
		}
		cs := &Case{Desc: desc + fmt.Sprintf(" -> %+q, %v", out, err), Key: key, ModelLeg: 902, ModelIn: modelIn, ImplOut: c09ResString(out, err),
			Nontrivial: err == nil && processed > 0 && out != input}
		switch {
		case c09IsPanic(err):
			cs.Direct = "Replace panicked: " + err.Error()
			cs.ImplOut = []int64{2, 0}
		case err != nil:
			cs.Class = "replace-error"
		case processed == 0:
			cs.Class = "replace-nomatch"
		case rtl:
			cs.Class = "replace-rtl"
		default:
			cs.Class = "replace-ltr"
		}
		if err == nil {
			// direct observables
			if processed == 0 && out != input {
				cs.Direct = fmt.Sprintf("no match was replaced but the result %+q is not the input", out)
			}
			if processed > 0 && !utf8.ValidString(out) {
				cs.Direct = "result is not valid UTF-8"
			}
			fresh := c09Compile(cp.pat, cp.opts)
			if out2, err2 := c09SafeReplace(fresh.re, input, rep, startAt, count); err2 != nil || out2 != out {
				cs.Direct = fmt.Sprintf("a freshly compiled Regexp gives %+q, %v (replacement cache not transparent)", out2, err2)
			}
			id, ierr := c09SafeReplace(cp.re, input, "$&", startAt, count)
			if ierr != nil || id != string(runes) && id != input {
				cs.Direct = fmt.Sprintf("Replace with $& is not the identity: %+q, %v", id, ierr)
			}
		}
		c.Add(cs)
		if clean && !c09IsPanic(err) {
			// ReplaceFunc with an evaluator computing the same expansion gives the same string (or the same error)
			ev := func(m regexp2.Match) string { return c09Expand(toks, runes, m) }
			fout, ferr := c09SafeReplaceFunc(cp.re, input, ev, startAt, count)
			if !c09IsTimeout(ferr) {
				fc := &Case{Desc: "ReplaceFunc: " + desc + fmt.Sprintf(" -> %+q, %v", fout, ferr), Key: "f|" + key, ModelLeg: 903, ModelIn: modelInS,
					ImplOut: c09ResString(fout, ferr), Nontrivial: ferr == nil && len(msS) > 0 && fout != input, Class: "replacefunc"}
				switch {
				case c09IsPanic(ferr):
					fc.Direct = "ReplaceFunc panicked: " + ferr.Error()
					fc.ImplOut = []int64{2, 0}
				case (ferr == nil) != (err == nil):
					fc.Direct = fmt.Sprintf("ReplaceFunc returns (%+q, %v) where Replace returns (%+q, %v)", fout, ferr, out, err)
				case ferr != nil && c09ErrCode(ferr) != c09ErrCode(err):
					fc.Direct = fmt.Sprintf("ReplaceFunc fails with %v where Replace fails with %v", ferr, err)
				case ferr == nil && fout != out:
					fc.Direct = fmt.Sprintf("ReplaceFunc with the evaluator of the same expansion gives %+q; Replace gives %+q", fout, out)
				}
				if ferr == nil && processed > 0 {
					gFunc = true
				}
				if ferr != nil {
					gFuncErr = true
				}
				c.Add(fc)
			}
		}
		if err != nil {
			if err.Error() == "startAt must align to the start of a valid rune in the input string" {
				gBoundary = true
			}
			if err.Error() == "startAt must be less than the length of the input string" {
				gTooLarge = true
			}
			return
		}
		// the specification evaluated directly
		c.Add(&Case{Desc: "replace_spec: " + desc, ModelLeg: 905, ModelIn: modelIn, ImplOut: c09ResString(out, nil), Class: "replace-spec"})
		if processed >= 2 && rtl && strings.Count(rep, "$") >= 1 && len(rep) >= 3 {
			gRtlMulti = true
		}
		for _, m := range ms[:processed] {
			if m.length == 0 {
				gEmpty = true
			}
			for _, g := range m.groups[1:] {
				if len(g) > 0 && clean {
					gGroupRef = true
				}
			}
		}
		if !utf8.ValidString(input) {
			gInvalid = true
		}
		if len(runes) != len(input) && processed > 0 {
			gMulti = true
		}
		if strings.Contains(cp.pat, "-o>") && processed > 0 {
			gBalancing = true
		}
	}
	// deterministic corpus: the witnesses of the defects found so far
	for _, w := range []struct {
		pat            string
		opts           regexp2.RegexOptions
		input, rep     string
		startAt, count int
	}{
		{`\d`, regexp2.RightToLeft, "a1b2", "<$&>", -1, -1},
		{`\d`, regexp2.RightToLeft, "a1b2", "<$&>", -1, 1},
		{`\d`, 0, "a1b2", "<$&>", -1, 0},
		{`(?=\G)abc`, 0, "xabc", "#", -1, -1},
		{`\G{2}abc`, 0, "xabc", "#", -1, -1},
		{`\G+?[a-c1]`, 0, "xabc", "#", -1, -1},
		{`\G+?[a-c1]`, 0, "ac\u00e9cB2xa ", "$+[a7", 6, -1},
		{`(?:ab*){2}`, 0, "aba", "[$&]", -1, -1},
		{`(z)|(?<o>a)+(?<-o>b)`, 0, "aaab", "$+[a7", -1, -1},
		{`(?<x>z)?(?<o>a)+(?<-o>b)`, 0, "xaab aaab", "$+[a7", -1, -1},
		{`(a)(b)?`, 0, "xaby", "[$1|$2|$3|${1}|${2|$1a|$10|$+|$_|$`|$'|$$|$]", -1, -1},
	} {
		cp := c09Compile(w.pat, w.opts)
		if cp == nil {
			c.Add(&Case{Desc: "corpus pattern does not compile: " + w.pat, Direct: "compile failed"})
			continue
		}
		c.Hist("programs")
		// a clean token list equivalent to "#" / "<$&>" for the ReplaceFunc comparison
		var toks []c09Tok
		clean := true
		switch w.rep {
		case "#":
			toks = []c09Tok{{kind: 0, lit: "#"}}
		case "<$&>":
			toks = []c09Tok{{kind: 0, lit: "<"}, {kind: 3}, {kind: 0, lit: ">"}}
		case "[$&]":
			toks = []c09Tok{{kind: 0, lit: "["}, {kind: 3}, {kind: 0, lit: "]"}}
		case "$+[a7":
			toks = []c09Tok{{kind: 6}, {kind: 0, lit: "[a7"}}
		default:
			clean = false
		}
		runCase(cp, w.rep, toks, clean, w.input, w.startAt, w.count)
	}
	for pi := 0; pi < nPat; pi++ {
		cp := c09GenCompiled(c.Rng)
		c.Hist("programs")
		var history []string
		for j := 0; j < perPat; j++ {
			clean := c.Rng.Chance(40)
			var rep string
			var toks []c09Tok
			if len(history) > 17 && c.Rng.Chance(15) {
				// an old replacement string again: evicted or still cached
				rep, clean = Pick(c.Rng, history[:len(history)-16]), false
				gCache = true
			} else {
				rep, toks = c09GenRep(c.Rng, cp, clean)
				history = append(history, rep)
			}
			input := c09Input(c.Rng)
			startAt := c09StartAt(c.Rng, input)
			count := c09Count(c.Rng)
			runCase(cp, rep, toks, clean, input, startAt, count)
		}
	}
	c.Gate("replace: right-to-left, two or more matches, replacement with several rules", gRtlMulti)
	c.Gate("replace: startAt off a rune boundary", gBoundary)
	c.Gate("replace: startAt beyond the input", gTooLarge)
	c.Gate("replace: empty match replaced", gEmpty)
	c.Gate("replace: input with invalid UTF-8", gInvalid)
	c.Gate("replace: multi-byte input with a match", gMulti)
	c.Gate("replace: balancing group pattern with a match", gBalancing)
	c.Gate("replace: count smaller than the number of matches", gCountCut)
	c.Gate("replace: ReplaceFunc with a match", gFunc)
	c.Gate("replace: ReplaceFunc with a rejected count or startAt", gFuncErr)
	c.Gate("replace: a replacement string used again after more than 16 other strings on the same Regexp", gCache)
	c.Gate("replace: a participating capture group with a clean replacement", gGroupRef)
}

func b2i09(b bool) int64 {
	if b {
		return 1
	}
	return 0
}

// ---------------------------------------------------------------------------------------------
// leg c09-split

func c09SafeSplit(re *regexp2.Regexp, input string, count int) (out []string, err error) {
	defer func() {
		if e := recover(); e != nil {
			err = fmt.Errorf("panic: %v", e)
		}
	}()
	return re.Split(input, count)
}

func legC09Split(c *Ctx) {
	c.Rule("the c09-replace pattern and input generators x count in {-3..5}: Split == model split == split_spec on the real match sequence; the pieces at positions 0, k+1, 2(k+1).. (k = number of groups) interleaved with the processed matches' texts rebuild the input; non-trivial = at least one match processed (distinct by (options, pattern, input, count))")
	nPat := c.N(2500, 40000)
	var gRtl2, gGroups, gEmpty, gCut, gUnmatched bool
	for pi := 0; pi < nPat; pi++ {
		cp := c09GenCompiled(c.Rng)
		c.Hist("programs")
		rtl := cp.opts&regexp2.RightToLeft != 0
		for j := 0; j < 8; j++ {
			input := c09Input(c.Rng)
			count := c09Count(c.Rng)
			runes := []rune(input)
			desc := fmt.Sprintf("pattern %+q opts=%s Split(%+q, %d)", cp.pat, c09Opts(cp.opts), input, count)
			ms, serr := c09Sequence(cp.re, input, -1)
			if serr == c09ErrTimeout {
				continue
			}
			if serr != nil {
				c.Add(&Case{Desc: desc, Direct: "enumerating the matches failed: " + serr.Error()})
				continue
			}
			if w := c09WF(ms, len(runes), rtl); w != "" {
				c.Add(&Case{Desc: desc, Direct: "hypothesis wf_matches of the C09 theorems does not hold for the real match sequence: " + w})
				continue
			}
			out, err := c09SafeSplit(cp.re, input, count)
			if c09IsTimeout(err) {
				continue
			}
			modelIn := append([]int64{b2i09(rtl)}, c09TW(input)...)
			modelIn = append(modelIn, int64(count))
			modelIn = append(modelIn, c09EncMatches(ms)...)
			processed := 0
			if count == -1 || count >= 2 {
				processed = len(ms)
				if count >= 2 && count < processed {
					processed = count
					gCut = true
				}
			}
			cs := &Case{Desc: desc + fmt.Sprintf(" -> %+q, %v", out, err), Key: fmt.Sprintf("%d|%s|%s|%d", cp.opts, cp.pat, input, count),
				ModelLeg: 904, ModelIn: modelIn, ImplOut: c09ResPieces(out, err), Nontrivial: err == nil && processed > 0}
			switch {
			case c09IsPanic(err):
				cs.Direct = "Split panicked: " + err.Error()
				cs.ImplOut = []int64{2, 0}
			case err != nil:
				cs.Class = "split-error"
			case processed == 0:
				cs.Class = "split-nomatch"
			case rtl:
				cs.Class = "split-rtl"
			default:
				cs.Class = "split-ltr"
			}
			if err == nil && count != 0 {
				// pieces re-joined with the matched texts rebuild the input
				k := len(cp.nums) - 1
				if len(out) != 1+processed*(k+1) {
					cs.Direct = fmt.Sprintf("expected %d pieces (%d matches processed, %d groups), got %d", 1+processed*(k+1), processed, k, len(out))
				} else {
					sel := append([]c09Match(nil), ms[:processed]...)
					if rtl {
						for a, b := 0, len(sel)-1; a < b; a, b = a+1, b-1 {
							sel[a], sel[b] = sel[b], sel[a]
						}
					}
					var sb strings.Builder
					for i := 0; i <= processed; i++ {
						sb.WriteString(out[i*(k+1)])
						if i < processed {
							sb.WriteString(string(runes[sel[i].idx : sel[i].idx+sel[i].length]))
						}
					}
					if sb.String() != string(runes) && !(processed == 0 && sb.String() == input) {
						cs.Direct = fmt.Sprintf("pieces re-joined with the matched texts give %+q, not the input", sb.String())
					}
				}
			}
			c.Add(cs)
			if err == nil {
				c.Add(&Case{Desc: "split_spec: " + desc, ModelLeg: 906, ModelIn: modelIn, ImplOut: c09ResPieces(out, nil), Class: "split-spec"})
				if rtl && processed >= 2 {
					gRtl2 = true
				}
				if processed > 0 && len(cp.nums) > 1 {
					gGroups = true
				}
				for _, m := range ms[:processed] {
					if m.length == 0 {
						gEmpty = true
					}
					for _, g := range m.groups[1:] {
						if len(g) == 0 {
							gUnmatched = true
						}
					}
				}
			}
		}
	}
	c.Gate("split: right-to-left with two or more matches", gRtl2)
	c.Gate("split: pattern with capture groups and a match", gGroups)
	c.Gate("split: empty match", gEmpty)
	c.Gate("split: count smaller than the number of matches", gCut)
	c.Gate("split: a group that did not participate", gUnmatched)
}
