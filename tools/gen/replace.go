package main

import (
	"fmt"
	"go/ast"
	"go/token"
	"strings"
)

// genReplace emits coq/Gen/ReplaceGen.v: the constants the C09 model (Model/Replace.v) depends on.
//   - replace.go and syntax/replacerdata.go each declare their own copy of replaceSpecials and the
//     four special rule numbers; both copies are emitted (prefix r_ / s_) and Proofs/ReplaceProofs.v
//     proves that they agree.
//   - syntax/tree.go: the node kinds NewReplacerData switches on.
//   - syntax/parser.go: option bits tested by the replacement parser and the overflow bounds of
//     scanDecimal (declared as math.MaxInt32 / 10 and math.MaxInt32 % 10; any other shape fails).
func genReplace() {
	var sb strings.Builder
	sb.WriteString(header)
	names := []string{"replaceSpecials", "replaceLeftPortion", "replaceRightPortion", "replaceLastGroup", "replaceWholeString"}
	rc := loadConsts("", "replace.go")
	sb.WriteString("(* replace.go *)\n")
	for _, n := range names {
		fmt.Fprintf(&sb, "Definition r_%s : Z := %s.\n", n, zlit(rc.intOf(n)))
	}
	sc := loadConsts("syntax", "replacerdata.go")
	sb.WriteString("(* syntax/replacerdata.go *)\n")
	for _, n := range names {
		fmt.Fprintf(&sb, "Definition s_%s : Z := %s.\n", n, zlit(sc.intOf(n)))
	}
	tc := loadConsts("syntax", "tree.go")
	sb.WriteString("(* syntax/tree.go *)\n")
	for _, n := range []string{"NtOne", "NtMulti", "NtRef", "NtConcatenate"} {
		fmt.Fprintf(&sb, "Definition rg_%s : Z := %s.\n", n, zlit(tc.intOf(n)))
	}
	pc := loadConsts("syntax", "parser.go")
	sb.WriteString("(* syntax/parser.go *)\n")
	for _, n := range []string{"IgnoreCase", "RightToLeft", "ECMAScript", "Unicode"} {
		fmt.Fprintf(&sb, "Definition rg_opt_%s : Z := %s.\n", n, zlit(pc.intOf(n)))
	}
	// maxValueDiv10 / maxValueMod10 are written in terms of math.MaxInt32 (package math is not loaded):
	// accept exactly `math.MaxInt32 / 10` and `math.MaxInt32 % 10`.
	const maxInt32 = int64(1<<31 - 1)
	found := map[string]bool{}
	for _, f := range pc.files {
		ast.Inspect(f, func(n ast.Node) bool {
			vs, ok := n.(*ast.ValueSpec)
			if !ok {
				return true
			}
			for i, id := range vs.Names {
				if id.Name != "maxValueDiv10" && id.Name != "maxValueMod10" {
					continue
				}
				if i >= len(vs.Values) {
					die("%s: no initialiser", id.Name)
				}
				be, ok := vs.Values[i].(*ast.BinaryExpr)
				if !ok {
					die("%s: unexpected initialiser shape", id.Name)
				}
				sel, ok1 := be.X.(*ast.SelectorExpr)
				lit, ok2 := be.Y.(*ast.BasicLit)
				if !ok1 || !ok2 || lit.Value != "10" {
					die("%s: unexpected initialiser shape", id.Name)
				}
				if x, ok := sel.X.(*ast.Ident); !ok || x.Name != "math" || sel.Sel.Name != "MaxInt32" {
					die("%s: unexpected initialiser shape", id.Name)
				}
				var v int64
				switch {
				case id.Name == "maxValueDiv10" && be.Op == token.QUO:
					v = maxInt32 / 10
				case id.Name == "maxValueMod10" && be.Op == token.REM:
					v = maxInt32 % 10
				default:
					die("%s: unexpected operator", id.Name)
				}
				fmt.Fprintf(&sb, "Definition rg_%s : Z := %s.\n", id.Name, zlit(v))
				found[id.Name] = true
			}
			return true
		})
	}
	if !found["maxValueDiv10"] || !found["maxValueMod10"] {
		die("maxValueDiv10/maxValueMod10 not found in syntax/parser.go")
	}
	writeIfChanged("ReplaceGen.v", sb.String())
}

func zlit(v int64) string {
	if v < 0 {
		return fmt.Sprintf("(%d)", v)
	}
	return fmt.Sprintf("%d", v)
}

func init() { registerGen(genReplace) }
