package main

// genAll is extended as more tables are needed.
func genAll() {
	genReplace() // C09: tools/gen/replace.go
}
