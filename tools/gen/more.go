package main

import (
	"fmt"
	"go/ast"
	"go/constant"
	"sort"
	"strings"
)

// generators are registered by the files of this package (one file per table family), so that
// adding a table never edits a shared file: `func init() { registerGen(genXxx) }`.
var generators []func()

func registerGen(f func()) { generators = append(generators, f) }

func init() {
	registerGen(genCode)
	registerGen(genTree)
	registerGen(genRunner)
}

func genAll() {
	for _, g := range generators {
		g()
	}
}

func findFunc(files []*ast.File, name string) *ast.FuncDecl {
	for _, f := range files {
		for _, d := range f.Decls {
			if fd, ok := d.(*ast.FuncDecl); ok && fd.Name.Name == name && fd.Recv == nil {
				return fd
			}
		}
	}
	die("function %s not found", name)
	return nil
}

// switchTable reads `switch x { case A, B: return K ... default: ... }` in function name and
// returns constant-name -> returned constant (as source text: an int literal, true or false).
func switchTable(pc *pkgConsts, name string) map[string]string {
	fd := findFunc(pc.files, name)
	out := map[string]string{}
	var sw *ast.SwitchStmt
	ast.Inspect(fd.Body, func(n ast.Node) bool {
		if s, ok := n.(*ast.SwitchStmt); ok && sw == nil {
			sw = s
		}
		return true
	})
	if sw == nil {
		die("%s: no switch", name)
	}
	for _, st := range sw.Body.List {
		cc := st.(*ast.CaseClause)
		if cc.List == nil {
			continue // default
		}
		if len(cc.Body) != 1 {
			die("%s: case body not a single return", name)
		}
		ret, ok := cc.Body[0].(*ast.ReturnStmt)
		if !ok || len(ret.Results) != 1 {
			die("%s: case body not a single return", name)
		}
		var val string
		switch r := ret.Results[0].(type) {
		case *ast.BasicLit:
			val = r.Value
		case *ast.Ident:
			val = r.Name
		default:
			die("%s: unsupported return expression", name)
		}
		for _, e := range cc.List {
			id, ok := e.(*ast.Ident)
			if !ok {
				die("%s: case label not an identifier", name)
			}
			out[id.Name] = val
		}
	}
	return out
}

func genCode() {
	pc := loadConsts("syntax", "code.go", "tree.go", "writer.go")
	var sb strings.Builder
	sb.WriteString(header)
	sb.WriteString("(* syntax/code.go: InstOp constants, opcodeSize, opcodeBacktracks *)\n")
	ops := []string{"Onerep", "Notonerep", "Setrep", "Oneloop", "Notoneloop", "Setloop", "Onelazy", "Notonelazy", "Setlazy",
		"One", "Notone", "Set", "Multi", "Ref", "Bol", "Eol", "Boundary", "Nonboundary", "Beginning", "Start", "EndZ", "End", "Nothing",
		"Lazybranch", "Branchmark", "Lazybranchmark", "Nullcount", "Setcount", "Branchcount", "Lazybranchcount", "Nullmark", "Setmark",
		"Capturemark", "Getmark", "Setjump", "Backjump", "Forejump", "Testref", "Goto", "Prune", "Stop", "ECMABoundary", "NonECMABoundary",
		"Oneloopatomic", "Notoneloopatomic", "Setloopatomic", "UpdateBumpalong", "Mask", "Rtl", "Back", "Back2", "Ci"}
	fmt.Fprintf(&sb, "Definition instop : list (Z * Z) := (* (index in the list below, value) *)\n  [")
	for i, o := range ops {
		if i > 0 {
			sb.WriteString("; ")
		}
		fmt.Fprintf(&sb, "(%d, %d)", i, pc.intOf(o))
	}
	sb.WriteString("].\n")
	fmt.Fprintf(&sb, "(* names, in order: %s *)\n", strings.Join(ops, " "))
	for _, o := range ops {
		fmt.Fprintf(&sb, "Definition G_%s : Z := %d.\n", o, pc.intOf(o))
	}
	size := switchTable(pc, "opcodeSize")
	bt := switchTable(pc, "opcodeBacktracks")
	type kv struct{ k, v int64 }
	var sz []kv
	for name, v := range size {
		var n int64
		fmt.Sscan(v, &n)
		sz = append(sz, kv{pc.intOf(name), n})
	}
	sort.Slice(sz, func(i, j int) bool { return sz[i].k < sz[j].k })
	sb.WriteString("Definition opcode_size_tbl : list (Z * Z) :=\n  [")
	for i, e := range sz {
		if i > 0 {
			sb.WriteString("; ")
		}
		fmt.Fprintf(&sb, "(%d, %d)", e.k, e.v)
	}
	sb.WriteString("].\n")
	var bl []int64
	for name, v := range bt {
		if v == "true" {
			bl = append(bl, pc.intOf(name))
		} else if v != "false" {
			die("opcodeBacktracks: unexpected %s", v)
		}
	}
	sort.Slice(bl, func(i, j int) bool { return bl[i] < bl[j] })
	fmt.Fprintf(&sb, "Definition opcode_backtracks_list : list Z := %s.\n", zlist(bl))
	fmt.Fprintf(&sb, "Definition MaxPrefixSize : Z := %d.\n", pc.intOf("MaxPrefixSize"))
	fmt.Fprintf(&sb, "Definition MultiVsRepeaterLimit : Z := %d.\n", pc.intOf("MultiVsRepeaterLimit"))
	fmt.Fprintf(&sb, "Definition BeforeChild : Z := %d.\nDefinition AfterChild : Z := %d.\n", pc.intOf("BeforeChild"), pc.intOf("AfterChild"))
	writeIfChanged("CodeGen.v", sb.String())
}

func genTree() {
	pc := loadConsts("syntax", "tree.go", "parser.go")
	var sb strings.Builder
	sb.WriteString(header)
	sb.WriteString("(* syntax/tree.go NodeType constants and syntax/parser.go RegexOptions bits *)\n")
	nts := []string{"NtOneloop", "NtNotoneloop", "NtSetloop", "NtOnelazy", "NtNotonelazy", "NtSetlazy", "NtOne", "NtNotone", "NtSet", "NtMulti", "NtRef",
		"NtBol", "NtEol", "NtBoundary", "NtNonboundary", "NtBeginning", "NtStart", "NtEndZ", "NtEnd", "NtNothing", "NtEmpty", "NtAlternate",
		"NtConcatenate", "NtLoop", "NtLazyloop", "NtCapture", "NtGroup", "NtPosLook", "NtNegLook", "NtAtomic", "NtBackRefCond", "NtExprCond",
		"NtECMABoundary", "NtNonECMABoundary", "NtOneloopatomic", "NtNotoneloopatomic", "NtSetloopatomic", "NtUpdateBumpalong"}
	for _, n := range nts {
		fmt.Fprintf(&sb, "Definition G_%s : Z := %d.\n", n, pc.intOf(n))
	}
	for _, n := range []string{"IgnoreCase", "Multiline", "ExplicitCapture", "Singleline", "IgnorePatternWhitespace", "RightToLeft", "ECMAScript", "RE2", "Unicode"} {
		fmt.Fprintf(&sb, "Definition G_opt_%s : Z := %d.\n", n, pc.intOf(n))
	}
	writeIfChanged("TreeGen.v", sb.String())
}

// constants of runner.go's initMatch / ensureStorage that the capacity theorems depend on
func genRunner() {
	pc := loadConsts(".", "runner.go")
	fd := (*ast.FuncDecl)(nil)
	for _, f := range pc.files {
		for _, d := range f.Decls {
			if x, ok := d.(*ast.FuncDecl); ok && x.Name.Name == "initMatch" {
				fd = x
			}
		}
	}
	if fd == nil {
		die("initMatch not found")
	}
	// collect: `tracksize := r.runtrackcount * K`, `if tracksize < K`, `stacksize ...`, `make([]int, 32)`
	vals := map[string]int64{}
	lit := func(e ast.Expr) (int64, bool) {
		if tv, ok := pc.info.Types[e]; ok && tv.Value != nil {
			if v, ok := constant.Int64Val(constant.ToInt(tv.Value)); ok {
				return v, true
			}
		}
		return 0, false
	}
	ast.Inspect(fd.Body, func(n ast.Node) bool {
		switch x := n.(type) {
		case *ast.AssignStmt:
			if len(x.Lhs) == 1 && len(x.Rhs) == 1 {
				if id, ok := x.Lhs[0].(*ast.Ident); ok {
					if be, ok := x.Rhs[0].(*ast.BinaryExpr); ok && be.Op.String() == "*" {
						if v, ok := lit(be.Y); ok {
							vals[id.Name+"_mul"] = v
						}
					}
					if v, ok := lit(x.Rhs[0]); ok {
						vals[id.Name+"_min"] = v
					}
				}
				if sel, ok := x.Lhs[0].(*ast.SelectorExpr); ok {
					if call, ok := x.Rhs[0].(*ast.CallExpr); ok && len(call.Args) == 2 {
						if v, ok := lit(call.Args[1]); ok {
							vals[sel.Sel.Name+"_make"] = v
						}
					}
				}
			}
		}
		return true
	})
	need := []string{"tracksize_mul", "stacksize_mul", "tracksize_min", "stacksize_min", "runcrawl_make"}
	var sb strings.Builder
	sb.WriteString(header)
	sb.WriteString("(* runner.go initMatch: initial stack sizes; ensureStorage: free-space factor *)\n")
	for _, k := range need {
		v, ok := vals[k]
		if !ok {
			die("initMatch: could not find %s (found %v)", k, vals)
		}
		fmt.Fprintf(&sb, "Definition G_%s : Z := %d.\n", k, v)
	}
	// ensureStorage: `r.Runtrackpos < r.runtrackcount*K`
	es := (*ast.FuncDecl)(nil)
	for _, f := range pc.files {
		for _, d := range f.Decls {
			if x, ok := d.(*ast.FuncDecl); ok && x.Name.Name == "ensureStorage" {
				es = x
			}
		}
	}
	if es == nil {
		die("ensureStorage not found")
	}
	factors := map[int64]int{}
	nTrackChecks := 0
	ast.Inspect(es.Body, func(n ast.Node) bool {
		if be, ok := n.(*ast.BinaryExpr); ok && be.Op.String() == "<" {
			if mul, ok := be.Y.(*ast.BinaryExpr); ok && mul.Op.String() == "*" {
				if v, ok := lit(mul.Y); ok {
					factors[v]++
					if sel, ok := be.X.(*ast.SelectorExpr); ok && sel.Sel.Name == "Runtrackpos" {
						nTrackChecks++
					}
				}
			}
		}
		return true
	})
	if len(factors) != 1 {
		die("ensureStorage: expected one free-space factor, found %v", factors)
	}
	for k := range factors {
		fmt.Fprintf(&sb, "Definition G_ensure_factor : Z := %d.\n", k)
	}
	fmt.Fprintf(&sb, "(* number of `Runtrackpos < runtrackcount*K` tests in ensureStorage: the re-check after growTrack makes it 2 *)\nDefinition G_ensure_track_checks : Z := %d.\n", nTrackChecks)
	writeIfChanged("RunnerGen.v", sb.String())
}
