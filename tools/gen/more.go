package main

// genAll is extended as more tables are needed.
func genAll() {
}
