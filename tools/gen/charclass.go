package main

// CharClassGen.v: the data tables of syntax/charclass.go that the class model (coq/Model/CharClass.v)
// carries as data: the lower-casing table lcTable (with the four Lowercase* operation codes) and the
// "old string" boundary lists behind the ECMAScript / RE2 shorthand classes.  Model/CharClassGenCheck.v
// proves (vm_compute) that the model's own tables equal these, so a change of a table in /repo breaks an
// obligation of C16/C20 instead of going unnoticed.

import (
	"fmt"
	"go/ast"
	"go/token"
	"strconv"
	"strings"
)

func init() { registerGen(genCharClass) }

func ccIntLit(pc *pkgConsts, e ast.Expr, where string) int64 {
	switch x := e.(type) {
	case *ast.BasicLit:
		switch x.Kind {
		case token.CHAR:
			return plCharLit(x, where)
		case token.INT:
			v, err := strconv.ParseInt(x.Value, 0, 64)
			if err != nil {
				die("%s: bad integer %s", where, x.Value)
			}
			return v
		}
	case *ast.Ident:
		return pc.intOf(x.Name)
	case *ast.UnaryExpr:
		if x.Op == token.SUB {
			return -ccIntLit(pc, x.X, where)
		}
	}
	die("%s: unsupported table element", where)
	return 0
}

func ccVarLit(pc *pkgConsts, name string) *ast.CompositeLit {
	for _, f := range pc.files {
		for _, d := range f.Decls {
			gd, ok := d.(*ast.GenDecl)
			if !ok || gd.Tok != token.VAR {
				continue
			}
			for _, sp := range gd.Specs {
				vs := sp.(*ast.ValueSpec)
				for i, n := range vs.Names {
					if n.Name == name && i < len(vs.Values) {
						if cl, ok := vs.Values[i].(*ast.CompositeLit); ok {
							return cl
						}
					}
				}
			}
		}
	}
	die("composite literal of var %s not found", name)
	return nil
}

func genCharClass() {
	pc := loadConsts("syntax", "charclass.go")
	var sb strings.Builder
	sb.WriteString(header)
	sb.WriteString("(* syntax/charclass.go: lcTable (chMin, chMax, op, data); ops: ")
	ops := []string{"LowercaseSet", "LowercaseAdd", "LowercaseBor", "LowercaseBad"}
	for _, o := range ops {
		fmt.Fprintf(&sb, "%s=%d ", o, pc.intOf(o))
	}
	sb.WriteString("*)\n")
	for _, o := range ops {
		fmt.Fprintf(&sb, "Definition G_%s : Z := %d.\n", o, pc.intOf(o))
	}
	cl := ccVarLit(pc, "lcTable")
	sb.WriteString("Definition G_lcTable : list (Z * Z * Z * Z) :=\n  [")
	for i, el := range cl.Elts {
		row, ok := el.(*ast.CompositeLit)
		if !ok || len(row.Elts) != 4 {
			die("lcTable: row %d is not a 4-field literal", i)
		}
		if i > 0 {
			sb.WriteString(";")
			if i%4 == 0 {
				sb.WriteString("\n   ")
			} else {
				sb.WriteString(" ")
			}
		}
		fmt.Fprintf(&sb, "(%d, %d, %d, %d)", ccIntLit(pc, row.Elts[0], "lcTable"), ccIntLit(pc, row.Elts[1], "lcTable"),
			ccIntLit(pc, row.Elts[2], "lcTable"), ccIntLit(pc, row.Elts[3], "lcTable"))
	}
	sb.WriteString("].\n\n")
	// "old string" lists: alternating first-in / first-out boundaries
	sb.WriteString("(* boundary lists behind the ECMAScript / RE2 shorthand classes ([]rune literals: in, out, in, out ...) *)\n")
	for _, n := range []string{"ecmaSpace", "ecmaWord", "ecmaDigit", "re2Space"} {
		cl := ccVarLit(pc, n)
		var vals []int64
		for _, el := range cl.Elts {
			vals = append(vals, ccIntLit(pc, el, n))
		}
		fmt.Fprintf(&sb, "Definition G_%s : list Z := %s.\n", n, zlist(vals))
	}
	writeIfChanged("CharClassGen.v", sb.String())
}
