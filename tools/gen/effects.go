package main

// EffectGen.v: the per-opcode stack-effect table of the interpreter (DESIGN §2.2, Appendix A), read off
// runner.go's executeDefault.  For every `case` of `switch r.operator` — keyed by the numeric case code
// (opcode | Back | Back2, constants of syntax/code.go) and split where one case body serves several
// operators through `r.operator ==` tests — every control path through the case body is enumerated and
// recorded as
//
//	(track words popped, track words pushed, stack words popped, stack words pushed, exit, flags, crawl)
//
//	exit : 0,1,2 = advance(k) | 10+i = goTo(operand(i)) (its error return included) | 20 = fall to backtrack()
//	       30 = return nil (Stop) | 31 = return an error (the default case)
//	flags: 1 = the path calls trackto (the track is first cut back to a saved height, "popped" is then unknown)
//	       2 = the path overwrites the root slot runtrack[len-1] (UpdateBumpalong)
//	crawl: min pushes + 10*max pushes + 100*pops + 1000*(pop-to-a-saved-height loop) of the capture-undo stack
//
// The helper arities (trackPush1 = 2 words ...) are NOT hard-coded: every method of *Runner called from a case
// body is classified by reading its body (a sequence of `pos--; arr[pos] = x` pairs is a push of that many
// words, `pos++` a pop, `pos += n` a pop of n, a body without writes to the interpreter's stack fields that
// only calls such methods is neutral).  Every statement / expression / call shape the walker does not
// understand is a loud failure (exit 2 with the source position), never skipped.

import (
	"fmt"
	"go/ast"
	"go/printer"
	"go/token"
	"sort"
	"strconv"
	"strings"
)

func init() { registerGen(genEffects) }

const (
	effExitBacktrack = 20
	effExitMatch     = 30
	effExitError     = 31
	effFlagTrackto   = 1
	effFlagRootWrite = 2
)

type effPath struct {
	tpop, tpush, spop, spush int
	exit                     int // -1: not yet decided
	flags                    int
	cmin, cmax, cpop         int
	cloop                    bool
}

func (p effPath) crawlCode() int {
	c := p.cmin + 10*p.cmax + 100*p.cpop
	if p.cloop {
		c += 1000
	}
	return c
}

// classification of a *Runner method, read from its body
type effHelper struct {
	kind string // tpush spush tpop spop tpopN spopN trackto neutral advance goTo capture uncapture
	n    int    // words (push/pop)
	cmin int    // crawl pushes (capture helpers)
	cmax int
	head string // tpush: "+codepos" / "-codepos" (the frame head written last)
}

type effGen struct {
	pc      *pkgConsts
	methods map[string]*ast.FuncDecl
	helpers map[string]*effHelper
	busy    map[string]bool
	used    map[string]bool
}

func effPos(n ast.Node) string { return fset.Position(n.Pos()).String() }

func effDie(n ast.Node, format string, a ...any) {
	die("effects: %s: %s", effPos(n), fmt.Sprintf(format, a...))
}

// protected fields: the interpreter state the table is about
var effProtected = map[string]bool{"Runtrackpos": true, "Runstackpos": true, "runtrack": true, "runstack": true,
	"runcrawl": true, "runcrawlpos": true, "codepos": true, "operator": true, "runtrackcount": true, "runmatch": true, "code": true}

// methods of other receivers that case bodies / neutral helpers may call (they cannot reach the runner's stacks)
var effForeignOK = map[string]bool{"isMatched": true, "matchIndex": true, "matchLength": true, "CharIn": true}

func isRField(e ast.Expr, name string) bool {
	s, ok := e.(*ast.SelectorExpr)
	if !ok || s.Sel.Name != name {
		return false
	}
	id, ok := s.X.(*ast.Ident)
	return ok && id.Name == "r"
}

// the root `r.` field an lvalue writes to ("" when it is not rooted at r)
func rootRField(e ast.Expr) string {
	for {
		switch x := e.(type) {
		case *ast.SelectorExpr:
			if id, ok := x.X.(*ast.Ident); ok && id.Name == "r" {
				return x.Sel.Name
			}
			e = x.X
		case *ast.IndexExpr:
			e = x.X
		case *ast.StarExpr:
			e = x.X
		case *ast.ParenExpr:
			e = x.X
		case *ast.SliceExpr:
			e = x.X
		default:
			return ""
		}
	}
}

func (g *effGen) helper(name string, at ast.Node) *effHelper {
	if h, ok := g.helpers[name]; ok {
		return h
	}
	fd, ok := g.methods[name]
	if !ok {
		effDie(at, "call of r.%s: no such method of *Runner in runner.go", name)
	}
	if g.busy[name] {
		effDie(at, "recursive helper r.%s", name)
	}
	g.busy[name] = true
	h := g.classify(name, fd)
	g.busy[name] = false
	g.helpers[name] = h
	return h
}

// `pos--` / `pos++` on r.<field>
func incDecOn(s ast.Stmt, field string, tok token.Token) bool {
	x, ok := s.(*ast.IncDecStmt)
	return ok && x.Tok == tok && isRField(x.X, field)
}

// `r.<arr>[r.<pos>] = e` ; returns e
func storeAt(s ast.Stmt, arr, pos string) (ast.Expr, bool) {
	a, ok := s.(*ast.AssignStmt)
	if !ok || a.Tok != token.ASSIGN || len(a.Lhs) != 1 || len(a.Rhs) != 1 {
		return nil, false
	}
	ix, ok := a.Lhs[0].(*ast.IndexExpr)
	if !ok || !isRField(ix.X, arr) || !isRField(ix.Index, pos) {
		return nil, false
	}
	return a.Rhs[0], true
}

func exprHasCall(e ast.Expr) bool {
	found := false
	ast.Inspect(e, func(n ast.Node) bool {
		if _, ok := n.(*ast.CallExpr); ok {
			found = true
		}
		return true
	})
	return found
}

func (g *effGen) pushShape(fd *ast.FuncDecl, arr, pos string) (int, string, bool) {
	l := fd.Body.List
	if len(l) == 0 || len(l)%2 != 0 {
		return 0, "", false
	}
	head := ""
	for i := 0; i < len(l); i += 2 {
		if !incDecOn(l[i], pos, token.DEC) {
			return 0, "", false
		}
		v, ok := storeAt(l[i+1], arr, pos)
		if !ok || exprHasCall(v) {
			return 0, "", false
		}
		head = "other"
		if isRField(v, "codepos") {
			head = "+codepos"
		} else if u, ok := v.(*ast.UnaryExpr); ok && u.Op == token.SUB && isRField(u.X, "codepos") {
			head = "-codepos"
		}
	}
	return len(l) / 2, head, true
}

func (g *effGen) classify(name string, fd *ast.FuncDecl) *effHelper {
	if fd.Body == nil {
		effDie(fd, "r.%s has no body", name)
	}
	l := fd.Body.List
	// pushes
	if n, head, ok := g.pushShape(fd, "runtrack", "Runtrackpos"); ok {
		if head != "+codepos" && head != "-codepos" {
			effDie(fd, "r.%s pushes %d track words but the last one is not the frame head (+/- r.codepos)", name, n)
		}
		return &effHelper{kind: "tpush", n: n, head: head}
	}
	if n, _, ok := g.pushShape(fd, "runstack", "Runstackpos"); ok {
		return &effHelper{kind: "spush", n: n}
	}
	if len(l) == 1 {
		// pops
		if incDecOn(l[0], "Runtrackpos", token.INC) {
			return &effHelper{kind: "tpop", n: 1}
		}
		if incDecOn(l[0], "Runstackpos", token.INC) {
			return &effHelper{kind: "spop", n: 1}
		}
		if a, ok := l[0].(*ast.AssignStmt); ok && len(a.Lhs) == 1 && len(a.Rhs) == 1 {
			param := ""
			if fd.Type.Params != nil && len(fd.Type.Params.List) == 1 && len(fd.Type.Params.List[0].Names) == 1 {
				param = fd.Type.Params.List[0].Names[0].Name
			}
			if id, ok := a.Rhs[0].(*ast.Ident); ok && a.Tok == token.ADD_ASSIGN && param != "" && id.Name == param {
				if isRField(a.Lhs[0], "Runtrackpos") {
					return &effHelper{kind: "tpopN"}
				}
				if isRField(a.Lhs[0], "Runstackpos") {
					return &effHelper{kind: "spopN"}
				}
			}
			// trackto: r.Runtrackpos = len(r.runtrack) - newpos
			if a.Tok == token.ASSIGN && isRField(a.Lhs[0], "Runtrackpos") && param != "" {
				if b, ok := a.Rhs[0].(*ast.BinaryExpr); ok && b.Op == token.SUB {
					if c, ok := b.X.(*ast.CallExpr); ok && len(c.Args) == 1 && isRField(c.Args[0], "runtrack") {
						if f, ok := c.Fun.(*ast.Ident); ok && f.Name == "len" {
							if id, ok := b.Y.(*ast.Ident); ok && id.Name == param {
								return &effHelper{kind: "trackto"}
							}
						}
					}
				}
			}
		}
	}
	switch name {
	case "advance":
		// r.codepos += (i + 1) ; r.setOperator(r.code.Codes[r.codepos])
		ok := len(l) == 2
		if ok {
			a, isA := l[0].(*ast.AssignStmt)
			ok = isA && a.Tok == token.ADD_ASSIGN && len(a.Lhs) == 1 && isRField(a.Lhs[0], "codepos") && effSrc(a.Rhs[0]) == "(i + 1)"
		}
		if ok {
			ok = effSrc(l[1]) == "r.setOperator(r.code.Codes[r.codepos])"
		}
		if !ok {
			effDie(fd, "advance: body is not `r.codepos += (i + 1); r.setOperator(r.code.Codes[r.codepos])`")
		}
		return &effHelper{kind: "advance"}
	case "goTo":
		// the only writes: r.codepos = newpos, and the operator through setOperator; ensureStorage on the way
		g.onlyWrites(fd, map[string]bool{"codepos": true}, map[string]bool{"ensureStorage": true, "setOperator": true})
		return &effHelper{kind: "goTo"}
	case "Capture", "transferCapture":
		// crawl(x) calls per path; everything else must leave the stacks alone
		min, max := g.countCalls(fd, "crawl")
		g.onlyWrites(fd, map[string]bool{}, map[string]bool{"crawl": true, ".addMatch": true, ".balanceMatch": true})
		return &effHelper{kind: "capture", cmin: min, cmax: max}
	case "uncapture":
		min, max := g.countCalls(fd, "popcrawl")
		if min != max {
			effDie(fd, "uncapture: popcrawl is not called the same number of times on every path")
		}
		g.onlyWrites(fd, map[string]bool{}, map[string]bool{"popcrawl": true, ".removeMatch": true})
		return &effHelper{kind: "uncapture", n: min}
	}
	// neutral: no write to a protected field, calls only neutral helpers
	g.onlyWrites(fd, map[string]bool{}, map[string]bool{})
	return &effHelper{kind: "neutral"}
}

func effSrc(n ast.Node) string {
	var b strings.Builder
	if err := printer.Fprint(&b, fset, n); err != nil {
		die("effects: print: %v", err)
	}
	return b.String()
}

// onlyWrites checks a helper body: the only protected r-fields it assigns are in `fields`; the only
// non-neutral *Runner methods it calls are in `calls` (".name" = a method of the capture store r.runmatch).
func (g *effGen) onlyWrites(fd *ast.FuncDecl, fields, calls map[string]bool) {
	ast.Inspect(fd.Body, func(n ast.Node) bool {
		switch x := n.(type) {
		case *ast.AssignStmt:
			for _, l := range x.Lhs {
				if f := rootRField(l); f != "" && effProtected[f] && !fields[f] {
					effDie(x, "r.%s writes r.%s: not a recognised helper shape", fd.Name.Name, f)
				}
			}
		case *ast.IncDecStmt:
			if f := rootRField(x.X); f != "" && effProtected[f] && !fields[f] {
				effDie(x, "r.%s writes r.%s: not a recognised helper shape", fd.Name.Name, f)
			}
		case *ast.UnaryExpr:
			if x.Op == token.AND {
				if f := rootRField(x.X); f != "" && effProtected[f] {
					effDie(x, "r.%s takes the address of r.%s", fd.Name.Name, f)
				}
			}
		case *ast.FuncLit, *ast.GoStmt, *ast.DeferStmt:
			effDie(x, "r.%s: closure / go / defer in a helper", fd.Name.Name)
		case *ast.CallExpr:
			g.helperCall(fd.Name.Name, x, calls)
		}
		return true
	})
}

func (g *effGen) helperCall(in string, c *ast.CallExpr, calls map[string]bool) {
	for _, a := range c.Args {
		if id, ok := a.(*ast.Ident); ok && id.Name == "r" {
			effDie(c, "r.%s passes the runner to %s", in, effSrc(c.Fun))
		}
	}
	sel, ok := c.Fun.(*ast.SelectorExpr)
	if !ok {
		return // builtin, conversion or package-level function not given the runner
	}
	if id, ok := sel.X.(*ast.Ident); ok && id.Name == "r" {
		if calls[sel.Sel.Name] {
			return
		}
		if h := g.helper(sel.Sel.Name, c); h.kind != "neutral" {
			effDie(c, "r.%s calls r.%s (%s): not a recognised helper shape", in, sel.Sel.Name, h.kind)
		}
		return
	}
	if f := rootRField(sel.X); f != "" && effProtected[f] && !effForeignOK[sel.Sel.Name] && !calls["."+sel.Sel.Name] {
		effDie(c, "r.%s calls %s on r.%s", in, sel.Sel.Name, f)
	}
}

// min / max number of r.<callee>() calls over the paths of a helper body (if/else only)
func (g *effGen) countCalls(fd *ast.FuncDecl, callee string) (int, int) {
	count := func(n ast.Node) int {
		k := 0
		ast.Inspect(n, func(x ast.Node) bool {
			if c, ok := x.(*ast.CallExpr); ok {
				if s, ok := c.Fun.(*ast.SelectorExpr); ok && s.Sel.Name == callee {
					if id, ok := s.X.(*ast.Ident); ok && id.Name == "r" {
						k++
					}
				}
			}
			return true
		})
		return k
	}
	var walk func(l []ast.Stmt) (int, int)
	var one func(s ast.Stmt) (int, int)
	one = func(s ast.Stmt) (int, int) {
		switch x := s.(type) {
		case *ast.IfStmt:
			if (x.Init != nil && count(x.Init) > 0) || count(x.Cond) > 0 {
				effDie(x, "%s: r.%s called inside a condition", fd.Name.Name, callee)
			}
			a0, a1 := walk(x.Body.List)
			b0, b1 := 0, 0
			if x.Else != nil {
				b0, b1 = one(x.Else)
			}
			if b0 < a0 {
				a0 = b0
			}
			if b1 > a1 {
				a1 = b1
			}
			return a0, a1
		case *ast.BlockStmt:
			return walk(x.List)
		case *ast.ForStmt, *ast.RangeStmt, *ast.SwitchStmt, *ast.ReturnStmt, *ast.BranchStmt, *ast.SelectStmt, *ast.TypeSwitchStmt, *ast.LabeledStmt:
			if count(x) > 0 || func() bool { _, r := x.(*ast.ReturnStmt); return r }() {
				effDie(x, "%s: control flow the crawl counter does not understand", fd.Name.Name)
			}
			return 0, 0
		default:
			k := count(s)
			return k, k
		}
	}
	walk = func(l []ast.Stmt) (int, int) {
		a0, a1 := 0, 0
		for _, s := range l {
			b0, b1 := one(s)
			a0, a1 = a0+b0, a1+b1
		}
		return a0, a1
	}
	return walk(fd.Body.List)
}

// ---------- case labels and conditions ----------

func (g *effGen) label(e ast.Expr) int64 {
	switch x := e.(type) {
	case *ast.ParenExpr:
		return g.label(x.X)
	case *ast.SelectorExpr:
		if id, ok := x.X.(*ast.Ident); ok && id.Name == "syntax" {
			if _, ok := g.pc.vals[x.Sel.Name]; !ok {
				effDie(e, "unknown constant syntax.%s", x.Sel.Name)
			}
			return g.pc.intOf(x.Sel.Name)
		}
	case *ast.BinaryExpr:
		if x.Op == token.OR {
			return g.label(x.X) | g.label(x.Y)
		}
	}
	effDie(e, "case label / operator constant of unknown shape: %s", effSrc(e))
	return 0
}

func mentionsOperator(e ast.Expr) bool {
	found := false
	ast.Inspect(e, func(n ast.Node) bool {
		if x, ok := n.(ast.Expr); ok && isRField(x, "operator") {
			found = true
		}
		return true
	})
	return found
}

// tri-state value of a condition for the operator `key`: 1 true, 0 false, -1 depends on run-time data
func (g *effGen) cond(e ast.Expr, key int64) int {
	switch x := e.(type) {
	case *ast.ParenExpr:
		return g.cond(x.X, key)
	case *ast.UnaryExpr:
		if x.Op == token.NOT {
			v := g.cond(x.X, key)
			if v < 0 {
				return -1
			}
			return 1 - v
		}
	case *ast.BinaryExpr:
		switch x.Op {
		case token.LAND:
			a, b := g.cond(x.X, key), g.cond(x.Y, key)
			if a == 0 || b == 0 {
				return 0
			}
			if a == 1 && b == 1 {
				return 1
			}
			return -1
		case token.LOR:
			a, b := g.cond(x.X, key), g.cond(x.Y, key)
			if a == 1 || b == 1 {
				return 1
			}
			if a == 0 && b == 0 {
				return 0
			}
			return -1
		case token.EQL, token.NEQ:
			var other ast.Expr
			if isRField(x.X, "operator") {
				other = x.Y
			} else if isRField(x.Y, "operator") {
				other = x.X
			}
			if other != nil {
				eq := g.label(other) == key
				if (x.Op == token.EQL) == eq {
					return 1
				}
				return 0
			}
		}
	}
	if mentionsOperator(e) {
		effDie(e, "test of r.operator of unknown shape: %s", effSrc(e))
	}
	return -1
}

// ---------- the path walker ----------

type effWalk struct {
	g      *effGen
	key    int64
	inLoop bool
}

// every call inside an expression must be neutral
func (w *effWalk) neutralExpr(e ast.Node) {
	if e == nil {
		return
	}
	ast.Inspect(e, func(n ast.Node) bool {
		switch x := n.(type) {
		case *ast.FuncLit:
			effDie(x, "closure in a case body")
		case *ast.UnaryExpr:
			if x.Op == token.AND || x.Op == token.ARROW {
				effDie(x, "operator %s in a case body", x.Op)
			}
		case *ast.CallExpr:
			for _, a := range x.Args {
				if id, ok := a.(*ast.Ident); ok && id.Name == "r" {
					effDie(x, "the runner is passed to %s", effSrc(x.Fun))
				}
			}
			switch f := x.Fun.(type) {
			case *ast.Ident:
				if f.Name != "rune" && f.Name != "int" && f.Name != "len" {
					effDie(x, "call of %s: unknown function", f.Name)
				}
			case *ast.SelectorExpr:
				if id, ok := f.X.(*ast.Ident); ok && id.Name == "r" {
					w.g.used[f.Sel.Name] = true
					if h := w.g.helper(f.Sel.Name, x); h.kind != "neutral" {
						effDie(x, "r.%s (%s) used inside an expression: effects are only understood as statements", f.Sel.Name, h.kind)
					}
				} else if id, ok := f.X.(*ast.Ident); ok && id.Name == "fmt" && f.Sel.Name == "Errorf" {
					// building the error value of the default case
				} else if !effForeignOK[f.Sel.Name] {
					effDie(x, "call of %s: unknown method", effSrc(f))
				}
			default:
				effDie(x, "call of unknown shape: %s", effSrc(x.Fun))
			}
		}
		return true
	})
}

func intLit(e ast.Expr) (int, bool) {
	b, ok := e.(*ast.BasicLit)
	if !ok || b.Kind != token.INT {
		return 0, false
	}
	v, err := strconv.Atoi(b.Value)
	return v, err == nil
}

func (w *effWalk) mustOpen(p effPath, at ast.Node) {
	if p.exit >= 0 {
		effDie(at, "statement after advance/goTo on the same path")
	}
}

// an effectful (or neutral) call statement r.name(args)
func (w *effWalk) callStmt(c *ast.CallExpr, p effPath) effPath {
	sel, ok := c.Fun.(*ast.SelectorExpr)
	if !ok {
		effDie(c, "call statement of unknown shape: %s", effSrc(c))
	}
	id, ok := sel.X.(*ast.Ident)
	if !ok || id.Name != "r" {
		effDie(c, "call statement on something else than the runner: %s", effSrc(c))
	}
	for _, a := range c.Args {
		w.neutralExpr(a)
	}
	w.mustOpen(p, c)
	name := sel.Sel.Name
	w.g.used[name] = true
	h := w.g.helper(name, c)
	popN := func() int {
		if len(c.Args) != 1 {
			effDie(c, "r.%s: expected one argument", name)
		}
		k, ok := intLit(c.Args[0])
		if !ok {
			effDie(c, "r.%s: frame size is not an integer literal", name)
		}
		return k
	}
	switch h.kind {
	case "neutral":
	case "tpush":
		p.tpush += h.n
	case "spush":
		p.spush += h.n
	case "tpop", "tpopN":
		k := h.n
		if h.kind == "tpopN" {
			k = popN()
		}
		if p.tpush > 0 || p.flags&effFlagTrackto != 0 {
			effDie(c, "track pop after a track push / trackto on the same path")
		}
		p.tpop += k
	case "spop", "spopN":
		k := h.n
		if h.kind == "spopN" {
			k = popN()
		}
		if p.spush > 0 {
			effDie(c, "stack pop after a stack push on the same path")
		}
		p.spop += k
	case "trackto":
		if p.tpop != 0 || p.tpush != 0 || p.flags&effFlagTrackto != 0 {
			effDie(c, "trackto after another track effect on the same path")
		}
		p.flags |= effFlagTrackto
	case "advance":
		k := popN()
		if k < 0 || k > 9 {
			effDie(c, "advance(%d)", k)
		}
		p.exit = k
	case "capture":
		if p.cpop > 0 || p.cloop {
			effDie(c, "capture after uncapture on the same path")
		}
		p.cmin += h.cmin
		p.cmax += h.cmax
	case "uncapture":
		if p.cmax > 0 || p.cloop {
			effDie(c, "uncapture mixed with another crawl effect on the same path")
		}
		p.cpop += h.n
	default:
		effDie(c, "r.%s (%s) as a statement: not understood", name, h.kind)
	}
	return p
}

// `if err := r.goTo(r.operand(i)); err != nil { return err }` ; returns i
func (w *effWalk) goToShape(s *ast.IfStmt) (int, bool) {
	a, ok := s.Init.(*ast.AssignStmt)
	if !ok || a.Tok != token.DEFINE || len(a.Lhs) != 1 || len(a.Rhs) != 1 || effSrc(a.Lhs[0]) != "err" {
		return 0, false
	}
	c, ok := a.Rhs[0].(*ast.CallExpr)
	if !ok || effSrc(c.Fun) != "r.goTo" {
		return 0, false
	}
	if effSrc(s.Cond) != "err != nil" || s.Else != nil || len(s.Body.List) != 1 || effSrc(s.Body.List[0]) != "return err" {
		effDie(s, "r.goTo whose error is not returned at once")
	}
	if w.g.helper("goTo", c).kind != "goTo" || len(c.Args) != 1 {
		effDie(s, "r.goTo of unknown shape")
	}
	w.g.used["goTo"] = true
	o, ok := c.Args[0].(*ast.CallExpr)
	if !ok || effSrc(o.Fun) != "r.operand" || len(o.Args) != 1 {
		effDie(s, "goTo target is not r.operand(i): %s", effSrc(c.Args[0]))
	}
	w.neutralExpr(o)
	i, ok := intLit(o.Args[0])
	if !ok || i < 0 || i > 9 {
		effDie(s, "goTo target is not r.operand(<literal>)")
	}
	return i, true
}

func (w *effWalk) localLHS(e ast.Expr) {
	id, ok := e.(*ast.Ident)
	if !ok || id.Name == "r" {
		effDie(e, "assignment to something else than a local variable: %s", effSrc(e))
	}
}

// `r.runtrack[len(r.runtrack)-1] = e`
func isRootWrite(a *ast.AssignStmt) bool {
	return a.Tok == token.ASSIGN && len(a.Lhs) == 1 && effSrc(a.Lhs[0]) == "r.runtrack[len(r.runtrack)-1]"
}

// walks a statement list; done = finished paths (exit set), open = paths falling out of the list,
// brk = paths that left the enclosing inner loop through `break`
func (w *effWalk) list(l []ast.Stmt, cur effPath) (done, open, brk []effPath) {
	open = []effPath{cur}
	for _, s := range l {
		var next []effPath
		for _, p := range open {
			d, o, b := w.stmt(s, p)
			done = append(done, d...)
			next = append(next, o...)
			brk = append(brk, b...)
		}
		open = next
	}
	return
}

func (w *effWalk) finish(p effPath, exit int, at ast.Node) effPath {
	if p.exit >= 0 {
		effDie(at, "path leaves the case body for backtrack()/return after advance/goTo")
	}
	p.exit = exit
	return p
}

func (w *effWalk) stmt(s ast.Stmt, p effPath) (done, open, brk []effPath) {
	switch x := s.(type) {
	case *ast.EmptyStmt:
		return nil, []effPath{p}, nil
	case *ast.BlockStmt:
		return w.list(x.List, p)
	case *ast.ExprStmt:
		c, ok := x.X.(*ast.CallExpr)
		if !ok {
			effDie(x, "expression statement that is not a call")
		}
		return nil, []effPath{w.callStmt(c, p)}, nil
	case *ast.AssignStmt:
		w.mustOpen(p, x)
		for _, r := range x.Rhs {
			w.neutralExpr(r)
		}
		if isRootWrite(x) {
			p.flags |= effFlagRootWrite
			return nil, []effPath{p}, nil
		}
		for _, l := range x.Lhs {
			w.localLHS(l)
		}
		return nil, []effPath{p}, nil
	case *ast.IncDecStmt:
		w.mustOpen(p, x)
		w.localLHS(x.X)
		return nil, []effPath{p}, nil
	case *ast.BranchStmt:
		switch x.Tok {
		case token.CONTINUE:
			if x.Label != nil || w.inLoop {
				effDie(x, "continue with a label / inside an inner loop")
			}
			if p.exit < 0 {
				effDie(x, "continue without advance/goTo: the same operator would run again")
			}
			return []effPath{p}, nil, nil
		case token.BREAK:
			if x.Label != nil {
				effDie(x, "break with a label")
			}
			if w.inLoop {
				return nil, nil, []effPath{p}
			}
			return []effPath{w.finish(p, effExitBacktrack, x)}, nil, nil
		case token.GOTO:
			if x.Label == nil || x.Label.Name != "BreakBackward" {
				effDie(x, "goto to an unknown label")
			}
			return []effPath{w.finish(p, effExitBacktrack, x)}, nil, nil
		}
		effDie(x, "branch statement %s", x.Tok)
	case *ast.ReturnStmt:
		if len(x.Results) != 1 {
			effDie(x, "return with %d results", len(x.Results))
		}
		w.neutralExpr(x.Results[0])
		if effSrc(x.Results[0]) == "nil" {
			return []effPath{w.finish(p, effExitMatch, x)}, nil, nil
		}
		if c, ok := x.Results[0].(*ast.CallExpr); ok && effSrc(c.Fun) == "fmt.Errorf" {
			return []effPath{w.finish(p, effExitError, x)}, nil, nil
		}
		effDie(x, "return of unknown shape: %s", effSrc(x))
	case *ast.IfStmt:
		w.mustOpen(p, x)
		if i, ok := w.goToShape(x); ok {
			p.exit = 10 + i
			return nil, []effPath{p}, nil
		}
		if x.Init != nil {
			a, ok := x.Init.(*ast.AssignStmt)
			if !ok {
				effDie(x.Init, "if-initialiser that is not an assignment")
			}
			_, o, _ := w.stmt(a, p)
			p = o[0]
		}
		w.neutralExpr(x.Cond)
		v := w.g.cond(x.Cond, w.key)
		if v != 0 {
			d, o, b := w.list(x.Body.List, p)
			done, open, brk = append(done, d...), append(open, o...), append(brk, b...)
		}
		if v != 1 {
			if x.Else != nil {
				d, o, b := w.stmt(x.Else, p)
				done, open, brk = append(done, d...), append(open, o...), append(brk, b...)
			} else {
				open = append(open, p)
			}
		}
		return
	case *ast.ForStmt:
		w.mustOpen(p, x)
		if w.inLoop {
			effDie(x, "nested loop")
		}
		// for r.Crawlpos() != X { r.uncapture() } : pop the capture-undo stack down to a saved height
		if x.Init == nil && x.Post == nil && x.Cond != nil && len(x.Body.List) == 1 && effSrc(x.Body.List[0]) == "r.uncapture()" {
			if b, ok := x.Cond.(*ast.BinaryExpr); ok && b.Op == token.NEQ && effSrc(b.X) == "r.Crawlpos()" {
				w.neutralExpr(x.Cond)
				w.g.used["uncapture"] = true
				if h := w.g.helper("uncapture", x); h.kind != "uncapture" || h.n != 1 {
					effDie(x, "uncapture loop: uncapture does not pop exactly one crawl word")
				}
				if p.cmax > 0 || p.cpop > 0 || p.cloop {
					effDie(x, "uncapture loop mixed with another crawl effect")
				}
				p.cloop = true
				return nil, []effPath{p}, nil
			}
		}
		if x.Init != nil {
			_, o, _ := w.stmt(x.Init, p)
			if len(o) != 1 || o[0] != p {
				effDie(x.Init, "loop initialiser with a stack effect")
			}
		}
		if x.Cond != nil {
			w.neutralExpr(x.Cond)
			if mentionsOperator(x.Cond) {
				effDie(x.Cond, "loop condition tests r.operator")
			}
		}
		if x.Post != nil {
			_, o, _ := w.stmt(x.Post, p)
			if len(o) != 1 || o[0] != p {
				effDie(x.Post, "loop post statement with a stack effect")
			}
		}
		in := &effWalk{g: w.g, key: w.key, inLoop: true}
		d, o, b := in.list(x.Body.List, p)
		for _, q := range append(o, b...) {
			if q != p {
				effDie(x, "loop body with a stack effect")
			}
		}
		return d, []effPath{p}, nil
	}
	effDie(s, "statement of unknown shape (%T): %s", s, strings.SplitN(effSrc(s), "\n", 2)[0])
	return
}

// ---------- the generator ----------

func genEffects() {
	g := &effGen{pc: loadConsts("syntax", "code.go", "tree.go", "writer.go"), methods: map[string]*ast.FuncDecl{},
		helpers: map[string]*effHelper{}, busy: map[string]bool{}, used: map[string]bool{}}
	f := parseFile("runner.go")
	var exec *ast.FuncDecl
	for _, d := range f.Decls {
		fd, ok := d.(*ast.FuncDecl)
		if !ok {
			continue
		}
		if fd.Recv == nil {
			if fd.Name.Name == "executeDefault" {
				exec = fd
			}
			continue
		}
		if len(fd.Recv.List) == 1 && effSrc(fd.Recv.List[0].Type) == "*Runner" && len(fd.Recv.List[0].Names) == 1 && fd.Recv.List[0].Names[0].Name == "r" {
			g.methods[fd.Name.Name] = fd
		}
	}
	if exec == nil {
		die("effects: executeDefault not found in runner.go")
	}
	// shape of executeDefault: `if err := r.goTo(0)...`, then `for { ...; switch r.operator {...}; BreakBackward: ; if err := r.backtrack()... }`
	if len(exec.Body.List) != 2 || effSrc(exec.Body.List[0]) != "if err := r.goTo(0); err != nil {\n\treturn err\n}" {
		effDie(exec, "executeDefault does not start with `if err := r.goTo(0); err != nil { return err }` followed by one loop")
	}
	loop, ok := exec.Body.List[1].(*ast.ForStmt)
	if !ok || loop.Init != nil || loop.Cond != nil || loop.Post != nil {
		effDie(exec.Body.List[1], "executeDefault: expected `for { ... }`")
	}
	var sw *ast.SwitchStmt
	swAt := -1
	for i, s := range loop.Body.List {
		if x, ok := s.(*ast.SwitchStmt); ok {
			if sw != nil {
				effDie(x, "second switch in the interpreter loop")
			}
			sw, swAt = x, i
		}
	}
	if sw == nil || sw.Init != nil || effSrc(sw.Tag) != "r.operator" {
		effDie(loop, "the interpreter loop has no `switch r.operator`")
	}
	// before the switch: the debug dump (r.debug is a developer switch, its body is not analysed) and the
	// timeout check, which may return an error and must leave the stacks alone
	for _, s := range loop.Body.List[:swAt] {
		switch effSrc(s) {
		case "if r.debug {\n\tr.dumpState()\n}":
		case "if !r.ignoreTimeout {\n\tif err := r.CheckTimeout(); err != nil {\n\t\treturn err\n\t}\n}":
			if h := g.helper("CheckTimeout", s); h.kind != "neutral" {
				effDie(s, "r.CheckTimeout is not neutral (%s)", h.kind)
			}
		default:
			effDie(s, "statement of unknown shape before the switch")
		}
	}
	rest := loop.Body.List[swAt+1:]
	okTail := len(rest) == 2
	if okTail {
		l, isL := rest[0].(*ast.LabeledStmt)
		okTail = isL && l.Label.Name == "BreakBackward"
		if okTail {
			_, okTail = l.Stmt.(*ast.EmptyStmt)
		}
	}
	if okTail {
		okTail = effSrc(rest[1]) == "if err := r.backtrack(); err != nil {\n\treturn err\n}"
	}
	if !okTail {
		effDie(sw, "the switch is not followed by `BreakBackward: ; if err := r.backtrack(); err != nil { return err }`")
	}
	// backtrack(): pops exactly one track word (the frame head), writes codepos, goes through ensureStorage
	bt, ok := g.methods["backtrack"]
	if !ok {
		die("effects: r.backtrack not found")
	}
	btPops := 0
	for _, s := range bt.Body.List {
		if incDecOn(s, "Runtrackpos", token.INC) {
			btPops++
		}
	}
	g.onlyWrites(bt, map[string]bool{"Runtrackpos": true, "codepos": true}, map[string]bool{"ensureStorage": true, "setOperator": true})
	if btPops != 1 {
		effDie(bt, "backtrack pops %d track words at top level (expected the frame head only)", btPops)
	}

	type row struct {
		key   int64
		line  int
		label string
		paths []effPath
	}
	var rows []row
	seenKey := map[int64]bool{}
	for _, c := range sw.Body.List {
		cc := c.(*ast.CaseClause)
		type lab struct {
			key  int64
			text string
		}
		var labs []lab
		if cc.List == nil {
			labs = []lab{{-1, "default"}}
		}
		for _, e := range cc.List {
			labs = append(labs, lab{g.label(e), strings.ReplaceAll(effSrc(e), "syntax.", "")})
		}
		for _, lb := range labs {
			if seenKey[lb.key] {
				effDie(cc, "case code %d appears twice", lb.key)
			}
			seenKey[lb.key] = true
			w := &effWalk{g: g, key: lb.key}
			done, open, _ := w.list(cc.Body, effPath{exit: -1})
			for _, p := range open {
				done = append(done, w.finish(p, effExitBacktrack, cc))
			}
			uniq := map[effPath]bool{}
			var ps []effPath
			for _, p := range done {
				if p.flags&effFlagTrackto != 0 && p.tpop != 0 {
					effDie(cc, "trackto mixed with track pops")
				}
				if !uniq[p] {
					uniq[p] = true
					ps = append(ps, p)
				}
			}
			sort.Slice(ps, func(i, j int) bool { return effLess(ps[i], ps[j]) })
			rows = append(rows, row{lb.key, fset.Position(cc.Pos()).Line, lb.text, ps})
		}
	}
	sort.Slice(rows, func(i, j int) bool { return rows[i].key < rows[j].key })

	var sb strings.Builder
	sb.WriteString(header)
	sb.WriteString("(* runner.go executeDefault: per-opcode stack effects, one entry per case code (opcode | Back | Back2; -1 = default),\n")
	sb.WriteString("   one tuple per control path:\n")
	sb.WriteString("     (track words popped, track words pushed, stack words popped, stack words pushed, exit, flags, crawl)\n")
	sb.WriteString("   exit : 0,1,2 = advance(k) | 10+i = goTo(operand(i)), or its error | 20 = falls to backtrack() | 30 = return nil | 31 = return error\n")
	sb.WriteString("   flags: 1 = trackto (track first cut back to a saved height) | 2 = root slot runtrack[len-1] overwritten\n")
	sb.WriteString("   crawl: min pushes + 10*max pushes + 100*pops + 1000*(uncapture down to a saved height) *)\n\n")
	sb.WriteString("(* helper arities, read from the helpers' bodies (words written / positions skipped) *)\n")
	var names []string
	for n := range g.used {
		names = append(names, n)
	}
	sort.Strings(names)
	for _, n := range names {
		h := g.helpers[n]
		if h == nil {
			continue
		}
		switch h.kind {
		case "tpush":
			fmt.Fprintf(&sb, "Definition G_eff_%s : Z := %d. (* track push, frame head %s *)\n", n, h.n, h.head)
		case "spush":
			fmt.Fprintf(&sb, "Definition G_eff_%s : Z := %d. (* stack push *)\n", n, h.n)
		case "tpop", "spop":
			fmt.Fprintf(&sb, "Definition G_eff_%s : Z := %d. (* pop *)\n", n, h.n)
		case "tpopN", "spopN":
			fmt.Fprintf(&sb, "Definition G_eff_%s : Z := -1. (* pops its argument *)\n", n)
		case "capture":
			fmt.Fprintf(&sb, "Definition G_eff_%s : Z * Z := (%d, %d). (* crawl pushes: min, max *)\n", n, h.cmin, h.cmax)
		case "uncapture":
			fmt.Fprintf(&sb, "Definition G_eff_%s : Z := %d. (* crawl pops *)\n", n, h.n)
		}
	}
	fmt.Fprintf(&sb, "Definition G_eff_backtrack_pops : Z := %d. (* backtrack(): the frame head *)\n", btPops)
	var neutral []string
	for _, n := range names {
		if h := g.helpers[n]; h != nil && h.kind == "neutral" {
			neutral = append(neutral, n)
		}
	}
	fmt.Fprintf(&sb, "(* helpers found neutral (no write to the stack fields, call only neutral helpers): %s *)\n\n", strings.Join(neutral, " "))

	sb.WriteString("Definition G_effects_x : list (Z * list (Z * Z * Z * Z * Z * Z * Z)) :=\n  [")
	for i, r := range rows {
		if i > 0 {
			sb.WriteString(";\n   ")
		}
		fmt.Fprintf(&sb, "(* runner.go:%d case %s *)\n   (%s, [", r.line, r.label, zstr(r.key))
		for j, p := range r.paths {
			if j > 0 {
				sb.WriteString("; ")
			}
			fmt.Fprintf(&sb, "(%d, %d, %d, %d, %d, %d, %d)", p.tpop, p.tpush, p.spop, p.spush, p.exit, p.flags, p.crawlCode())
		}
		sb.WriteString("])")
	}
	sb.WriteString("].\n\n")
	sb.WriteString("(* the same table without flags and crawl; track words popped = -1 where the path calls trackto *)\n")
	sb.WriteString("Definition G_effects : list (Z * list (Z * Z * Z * Z * Z)) :=\n  [")
	for i, r := range rows {
		if i > 0 {
			sb.WriteString(";\n   ")
		}
		fmt.Fprintf(&sb, "(%s, [", zstr(r.key))
		seen := map[string]bool{}
		first := true
		for _, p := range r.paths {
			tp := p.tpop
			if p.flags&effFlagTrackto != 0 {
				tp = -1
			}
			t := fmt.Sprintf("(%s, %d, %d, %d, %d)", zstr(int64(tp)), p.tpush, p.spop, p.spush, p.exit)
			if seen[t] {
				continue
			}
			seen[t] = true
			if !first {
				sb.WriteString("; ")
			}
			first = false
			sb.WriteString(t)
		}
		sb.WriteString("])")
	}
	sb.WriteString("].\n")
	writeIfChanged("EffectGen.v", sb.String())
}

func zstr(v int64) string {
	if v < 0 {
		return "(" + strconv.FormatInt(v, 10) + ")"
	}
	return strconv.FormatInt(v, 10)
}

func effLess(a, b effPath) bool {
	ka := []int{a.exit, a.tpop, a.tpush, a.spop, a.spush, a.flags, a.crawlCode()}
	kb := []int{b.exit, b.tpop, b.tpush, b.spop, b.spush, b.flags, b.crawlCode()}
	for i := range ka {
		if ka[i] != kb[i] {
			return ka[i] < kb[i]
		}
	}
	return false
}
