package main

// ParseLitGen.v: the tables the literal-fragment parser model (coq/Model/ParseLit.v) depends on,
// read from syntax/parser.go:
//   - the ASCII category table `_category` and the byte constants Q S Z X E it is written with,
//   - the (bound, operator, threshold) of isSpace / isSpecial / isStopperX / isQuantifier,
//   - the single-character escapes of scanCharEscape (`case 'a': return '\u0007', nil`),
//   - the digit counts of `\x` and `\u` (arguments of scanHex in scanCharEscape),
//   - the option bits the fragment reads.
// Any shape it does not recognise is a loud failure (exit 2).

import (
	"fmt"
	"go/ast"
	"go/token"
	"sort"
	"strconv"
	"strings"
)

func init() { registerGen(genParseLit) }

func plCharLit(e ast.Expr, where string) int64 {
	bl, ok := e.(*ast.BasicLit)
	if !ok || bl.Kind != token.CHAR {
		die("%s: expected a character literal", where)
	}
	s, err := strconv.Unquote(bl.Value)
	if err != nil {
		die("%s: bad character literal %s", where, bl.Value)
	}
	rs := []rune(s)
	if len(rs) != 1 {
		die("%s: bad character literal %s", where, bl.Value)
	}
	return int64(rs[0])
}

// `return (ch <= 'B' && _category[ch] OP K)` -> (B, OP, value of K)
func plClassifier(pc *pkgConsts, name string, wantOp token.Token) (bound int64, thr int64) {
	fd := findFunc(pc.files, name)
	if len(fd.Body.List) != 1 {
		die("%s: body is not a single return", name)
	}
	ret, ok := fd.Body.List[0].(*ast.ReturnStmt)
	if !ok || len(ret.Results) != 1 {
		die("%s: body is not a single return", name)
	}
	e := ret.Results[0]
	if pe, ok := e.(*ast.ParenExpr); ok {
		e = pe.X
	}
	and, ok := e.(*ast.BinaryExpr)
	if !ok || and.Op != token.LAND {
		die("%s: expected `ch <= c && _category[ch] op K`", name)
	}
	l, ok := and.X.(*ast.BinaryExpr)
	if !ok || l.Op != token.LEQ {
		die("%s: left conjunct is not `ch <= c`", name)
	}
	if id, ok := l.X.(*ast.Ident); !ok || id.Name != "ch" {
		die("%s: left conjunct is not `ch <= c`", name)
	}
	bound = plCharLit(l.Y, name)
	r, ok := and.Y.(*ast.BinaryExpr)
	if !ok || r.Op != wantOp {
		die("%s: right conjunct operator is not %s", name, wantOp)
	}
	ix, ok := r.X.(*ast.IndexExpr)
	if !ok {
		die("%s: right conjunct does not index _category", name)
	}
	if id, ok := ix.X.(*ast.Ident); !ok || id.Name != "_category" {
		die("%s: right conjunct does not index _category", name)
	}
	if id, ok := ix.Index.(*ast.Ident); !ok || id.Name != "ch" {
		die("%s: _category is not indexed by ch", name)
	}
	k, ok := r.Y.(*ast.Ident)
	if !ok {
		die("%s: threshold is not a named constant", name)
	}
	return bound, pc.intOf(k.Name)
}

func plMethod(files []*ast.File, name string) *ast.FuncDecl {
	for _, f := range files {
		for _, d := range f.Decls {
			if fd, ok := d.(*ast.FuncDecl); ok && fd.Name.Name == name && fd.Recv != nil {
				return fd
			}
		}
	}
	die("method %s not found", name)
	return nil
}

func genParseLit() {
	pc := loadConsts("syntax", "parser.go")
	var sb strings.Builder
	sb.WriteString(header)
	sb.WriteString("(* syntax/parser.go: tables read by the literal-fragment parser model (Model/ParseLit.v) *)\n")

	// option bits
	for _, o := range []string{"IgnoreCase", "Multiline", "ExplicitCapture", "Singleline", "IgnorePatternWhitespace", "RightToLeft", "ECMAScript", "RE2", "Unicode"} {
		fmt.Fprintf(&sb, "Definition PL_%s : Z := %d.\n", o, pc.intOf(o))
	}

	// category constants and table
	for _, k := range []string{"Q", "S", "Z", "X", "E"} {
		fmt.Fprintf(&sb, "Definition pl_cat_%s : Z := %d.\n", k, pc.intOf(k))
	}
	var table []int64
	found := false
	for _, f := range pc.files {
		for _, d := range f.Decls {
			gd, ok := d.(*ast.GenDecl)
			if !ok || gd.Tok != token.VAR {
				continue
			}
			for _, sp := range gd.Specs {
				vs := sp.(*ast.ValueSpec)
				if len(vs.Names) != 1 || vs.Names[0].Name != "_category" {
					continue
				}
				if len(vs.Values) != 1 {
					die("_category: no initialiser")
				}
				cl, ok := vs.Values[0].(*ast.CompositeLit)
				if !ok {
					die("_category: initialiser is not a composite literal")
				}
				for _, el := range cl.Elts {
					switch x := el.(type) {
					case *ast.Ident:
						table = append(table, pc.intOf(x.Name))
					case *ast.BasicLit:
						v, err := strconv.ParseInt(x.Value, 0, 64)
						if err != nil || x.Kind != token.INT {
							die("_category: bad literal %s", x.Value)
						}
						table = append(table, v)
					default:
						die("_category: unsupported element (keyed or computed)")
					}
				}
				found = true
			}
		}
	}
	if !found {
		die("_category table not found")
	}
	fmt.Fprintf(&sb, "(* var _category = []byte{...}: %d entries *)\n", len(table))
	fmt.Fprintf(&sb, "Definition pl_category : list Z :=\n  %s.\n", zlist(table))

	// classifiers
	b, t := plClassifier(pc, "isSpace", token.EQL)
	fmt.Fprintf(&sb, "(* isSpace: ch <= %d && _category[ch] == %d *)\nDefinition pl_space_bound : Z := %d.\nDefinition pl_space_cat : Z := %d.\n", b, t, b, t)
	b, t = plClassifier(pc, "isSpecial", token.GEQ)
	fmt.Fprintf(&sb, "(* isSpecial: ch <= %d && _category[ch] >= %d *)\nDefinition pl_special_bound : Z := %d.\nDefinition pl_special_min : Z := %d.\n", b, t, b, t)
	b, t = plClassifier(pc, "isStopperX", token.GEQ)
	fmt.Fprintf(&sb, "(* isStopperX: ch <= %d && _category[ch] >= %d *)\nDefinition pl_stopperx_bound : Z := %d.\nDefinition pl_stopperx_min : Z := %d.\n", b, t, b, t)
	b, t = plClassifier(pc, "isQuantifier", token.GEQ)
	fmt.Fprintf(&sb, "(* isQuantifier: ch <= %d && _category[ch] >= %d *)\nDefinition pl_quant_bound : Z := %d.\nDefinition pl_quant_min : Z := %d.\n", b, t, b, t)

	// scanCharEscape: the switch over ch
	fd := plMethod(pc.files, "scanCharEscape")
	var sw *ast.SwitchStmt
	ast.Inspect(fd.Body, func(n ast.Node) bool {
		if s, ok := n.(*ast.SwitchStmt); ok && sw == nil {
			if id, ok := s.Tag.(*ast.Ident); ok && id.Name == "ch" {
				sw = s
			}
		}
		return true
	})
	if sw == nil {
		die("scanCharEscape: no `switch ch`")
	}
	type kv struct{ k, v int64 }
	var simple []kv
	var labels []string
	hexArgs := map[int64][]int64{}
	for _, st := range sw.Body.List {
		cc := st.(*ast.CaseClause)
		if cc.List == nil {
			labels = append(labels, "default")
			continue
		}
		if len(cc.List) != 1 {
			die("scanCharEscape: a case with several labels")
		}
		lab := plCharLit(cc.List[0], "scanCharEscape case label")
		labels = append(labels, string(rune(lab)))
		if len(cc.Body) == 1 {
			if ret, ok := cc.Body[0].(*ast.ReturnStmt); ok && len(ret.Results) == 2 {
				if bl, ok := ret.Results[0].(*ast.BasicLit); ok && bl.Kind == token.CHAR {
					if id, ok := ret.Results[1].(*ast.Ident); !ok || id.Name != "nil" {
						die("scanCharEscape: case %q returns an error", rune(lab))
					}
					simple = append(simple, kv{lab, plCharLit(bl, "scanCharEscape return")})
					continue
				}
			}
		}
		// scanHex(n) calls inside this case
		for _, s := range cc.Body {
			ast.Inspect(s, func(n ast.Node) bool {
				ce, ok := n.(*ast.CallExpr)
				if !ok {
					return true
				}
				se, ok := ce.Fun.(*ast.SelectorExpr)
				if !ok || se.Sel.Name != "scanHex" || len(ce.Args) != 1 {
					return true
				}
				bl, ok := ce.Args[0].(*ast.BasicLit)
				if !ok || bl.Kind != token.INT {
					die("scanCharEscape: scanHex argument is not an integer literal")
				}
				v, err := strconv.ParseInt(bl.Value, 0, 64)
				if err != nil {
					die("scanCharEscape: bad scanHex argument %s", bl.Value)
				}
				hexArgs[lab] = append(hexArgs[lab], v)
				return true
			})
		}
	}
	sort.Strings(labels)
	if got, want := strings.Join(labels, " "), "a b c default e f n r t u v x"; got != want {
		die("scanCharEscape: case labels are %q, the model was written for %q", got, want)
	}
	if len(hexArgs['x']) != 1 || len(hexArgs['u']) != 1 {
		die("scanCharEscape: expected exactly one scanHex call under 'x' and one under 'u'")
	}
	sb.WriteString("(* scanCharEscape: `case 'l': return 'v', nil`, in source order *)\n")
	sb.WriteString("Definition pl_simple_escapes : list (Z * Z) :=\n  [")
	for i, e := range simple {
		if i > 0 {
			sb.WriteString("; ")
		}
		fmt.Fprintf(&sb, "(%d, %d)", e.k, e.v)
	}
	sb.WriteString("].\n")
	fmt.Fprintf(&sb, "(* scanCharEscape: \\x -> scanHex(%d), \\u -> scanHex(%d) *)\n", hexArgs['x'][0], hexArgs['u'][0])
	fmt.Fprintf(&sb, "Definition pl_x_digits : nat := %d%%nat.\nDefinition pl_u_digits : nat := %d%%nat.\n", hexArgs['x'][0], hexArgs['u'][0])

	// scanBackslash: the label sets of the first switch (the model hard-codes what each does)
	fd = plMethod(pc.files, "scanBackslash")
	sw = nil
	ast.Inspect(fd.Body, func(n ast.Node) bool {
		if s, ok := n.(*ast.SwitchStmt); ok && sw == nil {
			sw = s
		}
		return true
	})
	if sw == nil {
		die("scanBackslash: no switch")
	}
	var groups []string
	for _, st := range sw.Body.List {
		cc := st.(*ast.CaseClause)
		if cc.List == nil {
			groups = append(groups, "default")
			continue
		}
		var g []rune
		for _, e := range cc.List {
			g = append(g, rune(plCharLit(e, "scanBackslash case label")))
		}
		groups = append(groups, string(g))
	}
	if got, want := strings.Join(groups, " "), "bBAGZz w W s S d D pP default"; got != want {
		die("scanBackslash: case labels are %q, the model was written for %q", got, want)
	}
	fmt.Fprintf(&sb, "(* scanBackslash: case groups %s *)\n", strings.Join(groups, " | "))
	sb.WriteString("Definition pl_assert_letters : list Z := " + zlist(runesOf("bBAGZz")) + ".\n")
	sb.WriteString("Definition pl_class_letters : list Z := " + zlist(runesOf("wWsSdD")) + ".\n")
	writeIfChanged("ParseLitGen.v", sb.String())
}
